"""C11 - number and mass fractions are normalised and mutually consistent.

E2 bounded enumeration on the real Material / Substance classes.

  material   every ordered tuple of 1..3 distinct substances from {H2O, NaCl, O2, Ar, CO2} x proportions from
             {1, 2, 0.5, 78.084}^k x common scaling {1, 2, 0.1, 100, 1e-6, 1e-9, 1e-12} x normalisation {number, mass fractions} x
             isotope mode {natural, most abundant}.  The oracle is always computed from the UNscaled proportions,
             so every scaled case checks the scaling invariance.
  duality    for every unscaled number-fraction material: rebuild it from the mass fractions X it reports
             (Norm.MASS_FRACTION) and compare x and X.
  particle   the KIND of constituent a substance starts with / contains: every ordered tuple of 1..3 distinct
             substances from {[p], [n], [e], [e]He{4-2}, [p]3[n]2[e], H[e]} (free nucleons, nucleon first, nucleon
             not first) + partners {H, H2O} x proportions {1, 78.084}^k x common scaling {1, 0.01} x both
             normalisation modes x both isotope modes x input form {dictionary, expression string}; same oracle,
             duality for every unscaled number-fraction dictionary case.
  substance  x and X over the atoms of 11 formulas (Norm.NUMBER; three of them with nucleons as constituents), also
             after multiplying the substance by {2, 3, 0.5}.
  trace      a tiny positive proportion {8.7e-8, 1e-9, 1e-12} at every position next to proportions {1, 78.084}, all 20
             ordered pairs and the 6 orders of one triple, common scale {1, 1e-3}, both normalisation modes (dict form).
  explicit   material components written in the explicit formula notation ('Na{23} + Cl', 'O{17} * 3', 'H * 2 + O',
             'C + O * 2') as dictionary keys and through add(), at every position, both modes: component mass =
             mass of the stand-alone Substance of the same text, x and X from the closed formulas.
  string     materials given as expression strings "p <A> p <B> [p <C>]": every tuple of proportion spellings from 17
             (decimals, integer, unsigned / signed / upper-case exponents of unequal size, two trace values, bare trailing dot) x both normalisation modes x
             both isotope modes; oracle = closed formulas for float(spelling) + the same material given as a dict.
  history    E1 exploration of operation histories on LIVE composites: Substance CO2, Material by number and by mass
             fractions (dictionary and string input; natural isotopes for the two dictionary materials, most abundant
             ones for all) x every sequence of 1..2 (thorough 3) operations from
             {add(existing component, n), add(new component, n), + composite sharing a component (last / not last),
             + disjoint composite, + single component object (Material + Substance(..., proportion=p), Substance +
             Element; existing / new), * k, += composite, *= k}, unpruned, with table READS as part of the history:
             between the steps data_composite() with a component selection and both `quantity` flags, and around
             the final full read-out data_composite() for every selection of 1-2 of the first three components x
             both flags (exactly the selected rows, x and X those of the whole composite); operands of every non-mutating step and the live object are
             re-read after bystander composites sharing its formulas have been constructed and checked; after the last step x and X must follow the closed formulas for the
             final amounts (reference: a dict) and equal those of a freshly constructed composite with these amounts.

  component  "for EVERY composite": every component Substance of every Material built above (material, duality,
             particle, trace, explicit, string; in histories the final material, every operand, every bystander and
             the re-read after the bystanders) is read THROUGH its parent - parent.components[expr].data_composite() -
             for every held proportion of the enumeration (!= 1 in most cases), both parent modes, both isotope modes:
             sum x = sum X = 100 over its elements, X_i ~ n_i m_i (the 'mass' column of the same table), and x, X equal
             to those of an independently constructed stand-alone Substance of the same expression.

Oracle (from the statement only): sum x = sum X = 100; number mode: x_i = 100 p_i / sum p, X_i = 100 p_i m_i /
sum p_j m_j; mass mode: X_i = 100 p_i / sum p, x_i = 100 (p_i/m_i) / sum (p_j/m_j); m_i is the component mass the
object itself reports in data_components() (that this mass is right is C10's business).

Not demanded: the 'avg' row; spellings of a proportion that Python's float() and the documented "fraction" do not
share (leading '.', blanks inside a number); zero or negative proportions; the same substance listed twice in a
constructor argument; Norm.NUMBER for a Material.
"""
import itertools

from ..common import Shard, failure, outcome, HarnessError
from ..refmodels import materials_ref as R

PROPERTY = "C11"
LEVEL = "exploration"
RULE = ("a case is one (ordered substance tuple, proportion tuple, scaling, normalisation mode, isotope mode); all "
        "cases are distinct by construction; non-trivial = at least two components (fractions are not all 100), "
        "duality cases and substance cases count once each; particle: every (ordered tuple of nucleon-bearing / "
        "ordinary substances, proportion tuple, scaling, mode, isotope mode, input form); string: every (spelling tuple, mode, isotope mode); "
        "history: every (start object, isotope mode, operation sequence), all distinct, none pruned; the component "
        "substances of every material are read through the parent inside the same case (counted under "
        "through-parent:*, not as separate cases)")
ASSUMPTIONS = [
    "the component mass m_i is the one the object reports in data_components() (its correctness is property C10)",
    "x and X agree with the closed formulas to rel 1e-10, sums to abs 1e-9, duality to rel 1e-9",
]

SUBSTANCES = ["H2O", "NaCl", "O2", "Ar", "CO2"]
PROPS = [1, 2, 0.5, 78.084]
SCALES = [1, 2, 0.1, 100, 1e-6, 1e-9, 1e-12]
NWIN = 24                        # quick: k <= 2 complete, k = 3 one window of NWIN; thorough: everything

SUB_FORMULAS = ["H2O", "NaCl", "O2", "Ar", "CO2", "Ca(OH)2", "C2H5OH", "Fe{56+3}2O{-2}3",
                "[p]3[n]2[e]", "[e]He{4-2}", "H[e]"]
SUB_ATOMS = {           # written by hand: species -> count (the oracle never parses)
    "H2O": {"H": 2, "O": 1}, "NaCl": {"Na": 1, "Cl": 1}, "O2": {"O": 2}, "Ar": {"Ar": 1}, "CO2": {"C": 1, "O": 2},
    "Ca(OH)2": {"Ca": 1, "O": 2, "H": 2}, "C2H5OH": {"C": 2, "H": 6, "O": 1},
    "Fe{56+3}2O{-2}3": {"Fe{56+3}": 2, "O{-2}": 3},
    "[p]3[n]2[e]": {"[p]": 3, "[n]": 2, "[e]": 1}, "[e]He{4-2}": {"[e]": 1, "He{4-2}": 1}, "H[e]": {"H": 1, "[e]": 1},
}
SUB_MULT = [None, 2, 3, 0.5]

# substances by the KIND of their constituents (docs/source/materials/elements.rst: "individual nucleons can be used
# in formulas in the same way as elements"): free nucleons, a nucleon in first position, a nucleon in a later position,
# next to ordinary partners.  Component masses range over four orders of magnitude (5.5e-4 .. 18 Da).
PART_SUBSTANCES = ["[p]", "[n]", "[e]", "[e]He{4-2}", "[p]3[n]2[e]", "H[e]", "H", "H2O"]
PART_PROPS = [1, 78.084]
PART_SCALES = [1, 0.01]
PART_FORMS = ["dict", "str"]     # str: "p <A> p <B> ..." with p spelled repr(proportion * scale)
NWIN_PART = 48                   # quick: k <= 2 complete, k = 3 one window of NWIN_PART; thorough: everything

# materials given as expression STRINGS "p <substance> p <substance> ...": every tuple of proportion spellings
# (plain decimals, integers, unsigned / signed / upper-case exponents of unequal size), compared with the closed
# formulas for float(spelling) and with the same material given as a dictionary
SPELLINGS = ["0.2", "3.5", "2", "78.084", "0.9999", "1.0e-4", "2.5e-3", "2e-07", "3.5e-06", "7.5e+1", "1e3", "1.5E-2",
             "8.7e-08", "1e-12", "1.e-03", "2.E-2", "5."]      # last three: bare trailing dot (numpy's print format)
STR_SUBSTANCES = {2: ["H2O", "NaCl"], 3: ["H2O", "NaCl", "O2"]}
NWIN_STR = 20                    # quick: k = 2 complete, k = 3 one window of NWIN_STR; thorough: everything

# trace components: a tiny but positive proportion next to large ones (dictionary form), at two common scales.  The
# statement makes x and X depend on the RATIOS of the proportions only, so a component may never vanish because
# its proportion is small in absolute terms.
TRACE_VALUES = [8.7e-8, 1e-9, 1e-12]
TRACE_OTHERS = [1, 78.084]
TRACE_SCALES = [1, 1e-3]
TRACE_TRIPLE = ["H2O", "NaCl", "O2"]         # k = 3: the 6 orders of this triple; k = 2: all 20 ordered pairs

# operation histories on live composites (E1): every sequence of 1..HDEPTH operations on every start object
HIST_STARTS = {   # id -> (class, constructor argument, amounts written by hand, normalisation mode)
    "substance:CO2:str": ("Substance", "CO2", {"C": 1, "O": 2}, "number"),
    "material:number:dict": ("Material", {"H2O": 0.2, "NaCl": 0.3}, {"H2O": 0.2, "NaCl": 0.3}, "number"),
    "material:number:str": ("Material", "0.2 <H2O> 0.3 <NaCl>", {"H2O": 0.2, "NaCl": 0.3}, "number"),
    "material:mass:dict": ("Material", {"H2O": 0.2, "NaCl": 0.3}, {"H2O": 0.2, "NaCl": 0.3}, "mass"),
    "material:mass:str": ("Material", "0.2 <H2O> 0.3 <NaCl>", {"H2O": 0.2, "NaCl": 0.3}, "mass"),
}
HIST_OPS = {
    "Substance": [["add", "O", 2], ["add", "C", 1], ["add", "N", 1],
                  ["plus", [["C", 1], ["O", 1]]], ["plus", [["H", 2], ["O", 1]]], ["plus", [["N", 2]]],
                  ["mul", 2], ["mul", 0.5],
                  ["pluscomp", "O", 2], ["pluscomp", "N", 1],             # + Element('O', proportion=2), + Element('N')
                  ["iadd", [["C", 1], ["O", 1]]], ["imul", 2]],           # s += Substance('CO'),  s *= 2
    "Material": [["add", "H2O", 0.5], ["add", "NaCl", 1], ["add", "KCl", 0.1],
                 ["plus", [["Ar", 0.5], ["NaCl", 2]]], ["plus", [["H2O", 1], ["O2", 1]]], ["plus", [["O2", 1]]],
                 ["mul", 2], ["mul", 0.5],
                 ["pluscomp", "H2O", 2], ["pluscomp", "KCl", 2],           # + Substance('KCl', proportion=2)
                 ["iadd", [["Ar", 0.5], ["NaCl", 2]]]],                    # m += material  (Material has no *=)
}
HDEPTH = dict(quick=2, thorough=3)
HIST_NATURAL_TOO = ["material:number:dict", "material:mass:dict"]    # the other starts run with natural=False only
BYSTANDERS = {    # composites constructed afresh after every history; they share formulas with the live objects
    "Substance": {"H2O": ("H2O", {"H": 2, "O": 1}), "O": ("O", {"O": 1}), "CO2": ("CO2", {"C": 1, "O": 2})},
    "Material": {"dict": ({"H2O": 1, "NaCl": 3}, {"H2O": 1, "NaCl": 3}),
                 "str": ("2 <H2O> 1 <KCl>", {"H2O": 2, "KCl": 1})},
}


def init_worker():
    from ..isolation import tables_snapshot
    import scinumtools.materials  # noqa: all sub-modules loaded before the module-state snapshot
    tables_snapshot()
    R.materials_state_snapshot()


_LEAKS = []


def _restore():
    """put process-wide state back after a case: unit tables and module / class level containers of the materials
    modules (a cache that crosses objects must not make the next case depend on this one)"""
    from ..isolation import tables_restore
    leaked = R.materials_state_restore()
    if leaked:
        _LEAKS.extend(leaked)
    tables_restore()


def _norm(name):
    from scinumtools.materials import Norm
    return Norm.NUMBER_FRACTION if name == "number" else Norm.MASS_FRACTION


def _expected(props, masses, norm):
    if norm == "number":
        n = list(props)
    else:
        n = [p / m for p, m in zip(props, masses)]
    sn = sum(n)
    sm = sum(a * m for a, m in zip(n, masses))
    return [100 * a / sn for a in n], [100 * a * m / sm for a, m in zip(n, masses)]


def _read(obj, keys):
    """(masses, x, X, sum_x, sum_X) as floats from the public tables, or a ('err', ...) tuple"""
    o = outcome(obj.data_components, quantity=False)
    if o[0] == "err":
        return ("err", o[1] + ":data_components", o[2])
    dc = o[1]
    o = outcome(obj.data_composite, quantity=False)
    if o[0] == "err":
        return ("err", o[1] + ":data_composite", o[2])
    cp = o[1]
    try:
        masses = [float(dc[k].mass) for k in keys]
        x = [float(cp[k].x) for k in keys]
        X = [float(cp[k].X) for k in keys]
        return masses, x, X, float(cp["sum"].x), float(cp["sum"].X)
    except Exception as e:
        return ("err", type(e).__name__ + ":read", str(e)[:200])


def _compare(sub, case, tags, keys, amounts_props, norm, got):
    if got[0] == "err":
        return failure(sub, case, "tables", list(got), tags, "raises:" + got[1])
    masses, x, X, sx, sX = got
    ex, eX = _expected(amounts_props, masses, norm)
    if not R.close(sx, 100, 0, 1e-9) or not R.close(sum(x), 100, 0, 1e-9):
        return failure(sub, case, 100, dict(sum_row=sx, sum_of_rows=sum(x)), tags, "sum-x!=100")
    if not R.close(sX, 100, 0, 1e-9) or not R.close(sum(X), 100, 0, 1e-9):
        return failure(sub, case, 100, dict(sum_row=sX, sum_of_rows=sum(X)), tags, "sum-X!=100")
    for i, k in enumerate(keys):
        if not R.close(x[i], ex[i], 1e-10):
            return failure(sub, case, dict(x=ex), dict(x=x), tags, "x-differs")
        if not R.close(X[i], eX[i], 1e-10):
            return failure(sub, case, dict(X=eX), dict(X=X), tags, "X-differs")
    return None


_TP = {}                         # counters of the through-parent reads of this shard (flushed by run_shard)


def _through_parent(sub, case, tags, parent, natural):
    """"For every composite": each component Substance of a Material is itself a composite (of elements).  It is read
    THROUGH the parent (parent.components[key].data_composite()): its x and X each sum to 100, X_i is proportional
    to n_i m_i (the 'mass' column of the same table holds n_i m_i), and x, X equal those of an independently
    constructed stand-alone Substance of the same expression (whose x_i ~ n_i is the 'substance' sub-check) - i.e.
    they do not depend on the proportion the parent holds the substance with, nor on the parent's mode."""
    from scinumtools.materials import Substance
    tags = tags + ["through-parent"]
    for key, comp in list(parent.components.items()):
        c = dict(case, component=key)
        _TP["through-parent:components"] = _TP.get("through-parent:components", 0) + 1
        try:
            if float(comp.proportion) != 1.0:
                _TP["through-parent:proportion!=1"] = _TP.get("through-parent:proportion!=1", 0) + 1
        except Exception:
            pass
        o = outcome(comp.data_composite, quantity=False)
        if o[0] == "err":
            return failure(sub, c, "tables of the component", list(o), tags, "component:raises:" + o[1])
        tab = o[1]
        try:
            els = [k for k in tab.keys() if k not in ("avg", "sum")]
            x = [float(tab[k].x) for k in els]
            X = [float(tab[k].X) for k in els]
            nm = [float(tab[k].mass) for k in els]
            sx, sX = float(tab["sum"].x), float(tab["sum"].X)
        except Exception as e:
            return failure(sub, c, "x, X, mass of every element", repr(e)[:200], tags, "component:row-missing")
        if not R.close(sx, 100, 0, 1e-9) or not R.close(sum(x), 100, 0, 1e-9):
            return failure(sub, c, 100, dict(sum_row=sx, sum_of_rows=sum(x)), tags, "component:sum-x!=100")
        if not R.close(sX, 100, 0, 1e-9) or not R.close(sum(X), 100, 0, 1e-9):
            return failure(sub, c, 100, dict(sum_row=sX, sum_of_rows=sum(X)), tags, "component:sum-X!=100")
        tot = sum(nm)
        eX = [100 * v / tot for v in nm]
        if any(not R.close(a, b, 1e-10) for a, b in zip(X, eX)):
            return failure(sub, c, dict(X=eX), dict(X=X), tags, "component:X-not-proportional-to-n*m")
        o2 = outcome(lambda: Substance(key, natural=natural).data_composite(quantity=False))
        if o2[0] == "err":
            continue                # the stand-alone substance is the business of the 'substance' sub-check
        ref = o2[1]
        try:
            rels = [k for k in ref.keys() if k not in ("avg", "sum")]
            rx = [float(ref[k].x) for k in rels]
            rX = [float(ref[k].X) for k in rels]
        except Exception:
            continue
        if rels != els:
            return failure(sub, c, rels, els, tags, "component:rows-differ-from-standalone")
        if any(not R.close(a, b, 1e-10) for a, b in zip(x, rx)):
            return failure(sub, c, dict(x=rx), dict(x=x), tags, "component:x-differs-from-standalone")
        if any(not R.close(a, b, 1e-10) for a, b in zip(X, rX)):
            return failure(sub, c, dict(X=rX), dict(X=X), tags, "component:X-differs-from-standalone")
    return None


def check_material(subs, props, scale, norm, natural, duality=False, form="dict"):
    from scinumtools.materials import Material
    case = dict(kind="duality" if duality else "material", subs=list(subs), props=list(props), scale=scale,
                norm=norm, natural=natural)
    tags = ["norm:" + norm, "k=%d" % len(subs), "scale=%s" % scale, "natural" if natural else "abundant"]
    if any("[" in s for s in subs):              # features of the input: kind of constituents
        tags.append("nucleon-first" if any(s.startswith("[") for s in subs) else "nucleon-inside")
    given = {s: p * scale for s, p in zip(subs, props)}
    arg = dict(given)
    if form == "str":
        case["form"] = form
        tags.append("input:str")
        arg = " ".join("%r <%s>" % (p, s) for s, p in given.items())
        case["expr"] = arg
    o = outcome(Material, arg, natural=natural, norm_type=_norm(norm))
    if o[0] == "err":
        return failure("fractions", case, "Material constructed", list(o), tags, "raises:" + o[1])
    got = _read(o[1], subs)
    bad = _compare("fractions", case, tags, subs, props, norm, got)
    if bad is None:
        bad = _through_parent("fractions", case, tags, o[1], natural)
    if bad or not duality:
        return bad
    # duality: the same material specified by the resulting mass fractions
    masses, x, X, sx, sX = got
    o2 = outcome(Material, dict(zip(subs, X)), natural=natural, norm_type=_norm("mass"))
    if o2[0] == "err":
        return failure("duality", case, "Material constructed", list(o2), tags, "raises:" + o2[1])
    got2 = _read(o2[1], subs)
    if got2[0] == "err":
        return failure("duality", case, "tables", list(got2), tags, "raises:" + got2[1])
    _, x2, X2, sx2, sX2 = got2
    for i in range(len(subs)):
        if not R.close(x2[i], x[i], 1e-9):
            return failure("duality", case, dict(x=x), dict(x=x2), tags, "x-differs")
        if not R.close(X2[i], X[i], 1e-9):
            return failure("duality", case, dict(X=X), dict(X=X2), tags, "X-differs")
    return _through_parent("duality", case, tags + ["rebuilt-from-X"], o2[1], natural)


def check_substance(formula, mult, natural):
    from scinumtools.materials import Substance
    case = dict(kind="substance", formula=formula, mult=mult, natural=natural)
    atoms = SUB_ATOMS[formula]
    keys = list(atoms)
    tags = ["norm:count", "k=%d" % len(keys), "mult=%s" % mult, "natural" if natural else "abundant"]

    def build():
        s = Substance(formula, natural=natural)
        return s if mult is None else s * mult
    o = outcome(build)
    if o[0] == "err":
        return failure("substance", case, "Substance constructed", list(o), tags, "raises:" + o[1])
    got = _read(o[1], keys)
    return _compare("substance", case, tags, keys, [atoms[k] for k in keys], "number", got)


def check_string(subs, spellings, norm, natural):
    """material given as an expression string; oracle from float(spelling) and from the dictionary twin"""
    from scinumtools.materials import Material
    expr = " ".join("%s <%s>" % (p, s_) for p, s_ in zip(spellings, subs))
    props = [float(p) for p in spellings]
    case = dict(kind="string", expr=expr, subs=list(subs), spellings=list(spellings), norm=norm, natural=natural)
    tags = ["input:str", "norm:" + norm, "k=%d" % len(subs), "natural" if natural else "abundant"]
    if any("e-" in p.lower() or "e+" in p.lower() for p in spellings):
        tags.append("signed-exponent")
    if any("e" in p.lower() for p in spellings) and len({p.lower().partition("e")[2] for p in spellings}) > 1:
        tags.append("unequal-exponents")
    o = outcome(Material, expr, natural=natural, norm_type=_norm(norm))
    if o[0] == "err":
        return failure("string", case, "Material constructed", list(o), tags, "raises:" + o[1])
    got = _read(o[1], subs)
    bad = _compare("string", case, tags, subs, props, norm, got)
    if bad is None:
        bad = _through_parent("string", case, tags, o[1], natural)
    if bad:
        return bad
    o2 = outcome(Material, dict(zip(subs, props)), natural=natural, norm_type=_norm(norm))
    if o2[0] == "err":
        return None                 # the dictionary form is the business of the 'fractions' sub-check
    got2 = _read(o2[1], subs)
    if got2[0] == "err":
        return None
    for i in range(len(subs)):
        if not R.close(got[1][i], got2[1][i], 1e-10):
            return failure("string", case, dict(x=got2[1]), dict(x=got[1]), tags, "x-differs-from-dict")
        if not R.close(got[2][i], got2[2][i], 1e-10):
            return failure("string", case, dict(X=got2[2]), dict(X=got[2]), tags, "X-differs-from-dict")
    return None


# material components written in the documented EXPLICIT formula notation (blanks around + and *); as dictionary keys
# and through add().  Inside an expression string '<...>' the material solver itself splits at ' + ' / ' * ' on the
# unpatched tree, so that form is not demanded.
EXPLICIT_KEYS = ["Na{23} + Cl", "O{17} * 3", "H * 2 + O", "C + O * 2"]


def check_explicit(key, pos, norm, natural, via):
    """the component must have the mass of the stand-alone Substance of the same text, and x, X follow from it"""
    from scinumtools.materials import Material, Substance
    case = dict(kind="explicit", key=key, pos=pos, norm=norm, natural=natural, via=via)
    tags = ["explicit-notation", "via:" + via, "norm:" + norm, "pos=%d" % pos, "natural" if natural else "abundant"]
    subs = ["NaCl", "Ar"]
    subs.insert(pos, key)
    props = [0.3, 1.5]
    props.insert(pos, 0.2)

    def run():
        alone = Substance(key, natural=natural).data_composite(quantity=False)["sum"].mass
        if via == "dict":
            m = Material(dict(zip(subs, props)), natural=natural, norm_type=_norm(norm))
        else:
            m = Material(natural=natural, norm_type=_norm(norm))
            for s_, p_ in zip(subs, props):
                m.add(s_, p_)
        return float(alone), m
    o = outcome(run)
    if o[0] == "err":
        return failure("explicit", case, "constructed", list(o), tags, "raises:" + o[1])
    alone, m = o[1]
    got = _read(m, subs)
    if got[0] == "err":
        return failure("explicit", case, "tables", list(got), tags, "raises:" + got[1])
    if not R.close(got[0][pos], alone, 1e-12):
        return failure("explicit", case, alone, got[0][pos], tags, "component-mass-differs-from-substance")
    bad = _compare("explicit", case, tags, subs, props, norm, got)
    if bad is None:
        bad = _through_parent("explicit", case, tags, m, natural)
    return bad


def _make(cls, arg, mode, natural):
    from scinumtools.materials import Substance, Material
    if isinstance(arg, dict):
        arg = dict(arg)
    if cls == "Substance":
        return Substance(arg, natural=natural)
    return Material(arg, natural=natural, norm_type=_norm(mode))


def _prefixed(bad, prefix, extra_tag):
    if bad is not None:
        bad["behaviour"] = prefix + ":" + bad["behaviour"]
        bad["tags"] = sorted(set(bad["tags"]) | {extra_tag})
    return bad


def _component(cls, key, amount, natural):
    """single-component right operand: an Element for a Substance, a Substance for a Material"""
    from scinumtools.materials import Substance, Element
    if cls == "Substance":
        return Element(key, proportion=amount, natural=natural)
    return Substance(key, proportion=amount, natural=natural)


def _light_reads(obj):
    """reads between the steps: a component selection and both `quantity` flags"""
    ks = list(obj.components)
    obj.data_composite(components=[ks[0]], quantity=False)
    obj.data_composite(components=[ks[-1]], quantity=True)
    obj.data_components(quantity=True)


def _partial_reads(case, tags, obj, keys, amounts, mode, stage):
    """data_composite() restricted to every subset of size 1-2 of the first three components, with both `quantity`
    flags: the table holds exactly the selected rows (plus avg / sum) and their x, X are those of the whole
    composite (documentation: "one can specify which elements should be returned")"""
    o = outcome(obj.data_components, quantity=False)
    if o[0] == "err":
        return failure("reads", case, "data_components()", list(o), tags, "raises:" + o[1] + ":data_components")
    try:
        masses = [float(o[1][k].mass) for k in keys]
    except Exception as e:
        return failure("reads", case, "mass of every component", repr(e)[:200], tags, "row-missing:data_components")
    ex, eX = _expected([amounts[k] for k in keys], masses, mode)
    head = keys[:3]
    subsets = [list(c) for n in (1, 2) for c in itertools.combinations(head, n)]
    combos = [(sub, q) for sub in subsets for q in (False, True)]
    if stage != "before-full-read":         # after the full read-out: the last selection of each size, one flag each
        combos = [(subsets[len(head) - 1], True), (subsets[-1], False)]
    for sub, q in combos:
        t = tags + ["selection=%d" % len(sub), "quantity=%s" % q, "stage:" + stage]
        o = outcome(obj.data_composite, components=list(sub), quantity=q)
        if o[0] == "err":
            return failure("reads", case, "partial table", list(o), t, "raises:" + o[1] + ":partial")
        tab = o[1]
        rows = [k for k in tab.keys() if k not in ("avg", "sum")]
        if rows != sub:
            return failure("reads", dict(case, selection=sub, quantity=q), sub, rows, t, "partial-table-wrong-rows")
        for k in sub:
            i = keys.index(k)
            x, X = tab[k].x, tab[k].X
            if q:
                x, X = x.value("%"), X.value("%")
            if not R.close(x, ex[i], 1e-10) or not R.close(X, eX[i], 1e-10):
                return failure("reads", dict(case, selection=sub, quantity=q), dict(x=ex[i], X=eX[i]),
                               dict(x=float(x), X=float(X)), t, "partial-table-wrong-values")
    return None


def check_history(start, natural, history):
    """apply the history to a live composite; its x and X must follow the closed formulas for the final amounts and
    equal those of a composite freshly constructed with the same amounts; afterwards the operands of every
    non-mutating step are re-read, bystander composites sharing formulas with the live object are constructed and
    checked, and the live object is re-read (two composites alive at once must not influence each other)"""
    cls, arg, amounts0, mode = HIST_STARTS[start]
    case = dict(kind="history", start=start, natural=natural, history=history)
    amounts = R.model_run(amounts0, history)
    keys = list(amounts)
    tags = R.history_tags(amounts0, history) + ["class:" + cls, "norm:" + mode, "input:" + start.split(":")[-1],
                                                "natural" if natural else "abundant"]
    alive = []

    def run():
        obj = _make(cls, arg, mode, natural)
        return R.real_run(obj, history, lambda pairs: _make(cls, dict((k, v) for k, v in pairs), mode, natural),
                          cls == "Material", make_component=lambda k, a: _component(cls, k, a, natural),
                          counts=amounts0, alive=alive, after_step=_light_reads)
    o = outcome(run)
    if o[0] == "err":
        return failure("history", case, "history executed", list(o), tags, "raises:" + o[1]), amounts
    final = o[1]
    bad = _partial_reads(case, tags, final, keys, amounts, mode, "before-full-read")
    if bad:
        return bad, amounts
    got = _read(final, keys)
    bad = _compare("history", case, tags, keys, [amounts[k] for k in keys], mode, got)
    if bad:
        return bad, amounts
    bad = _partial_reads(case, tags, final, keys, amounts, mode, "after-full-read")
    if bad:
        return bad, amounts
    if cls == "Material":           # the substances held by the live material, read through it
        bad = _through_parent("history", case, tags, final, natural)
        if bad:
            return bad, amounts
    for role, obj, c in alive:
        ks = list(c)
        bad = _prefixed(_compare("history", case, tags, ks, [c[k] for k in ks], mode, _read(obj, ks)),
                        role + "-changed", role)
        if bad is None and cls == "Material":
            bad = _prefixed(_through_parent("history", case, tags, obj, natural), role + "-changed", role)
        if bad:
            return bad, amounts
    o2 = outcome(_make, cls, dict(amounts), mode, natural)
    if o2[0] == "ok":
        got2 = _read(o2[1], keys)
        if got2[0] != "err":
            for i in range(len(keys)):
                if not R.close(got[1][i], got2[1][i], 1e-10):
                    return failure("history", case, dict(x=got2[1]), dict(x=got[1]), tags,
                                   "x-differs-from-fresh"), amounts
                if not R.close(got[2][i], got2[2][i], 1e-10):
                    return failure("history", case, dict(X=got2[2]), dict(X=got[2]), tags,
                                   "X-differs-from-fresh"), amounts
    for name, (parg, pam) in BYSTANDERS[cls].items():
        o3 = outcome(_make, cls, parg, mode, natural)
        if o3[0] == "err":
            return failure("history", case, "bystander %s constructed" % name, list(o3),
                           tags + ["bystander:" + name], "bystander:raises:" + o3[1]), amounts
        ks = list(pam)
        bad = _prefixed(_compare("history", case, tags, ks, [pam[k] for k in ks], mode, _read(o3[1], ks)),
                        "bystander", "bystander:" + name)
        if bad is None and cls == "Material":
            bad = _prefixed(_through_parent("history", case, tags, o3[1], natural), "bystander", "bystander:" + name)
        if bad:
            return bad, amounts
    bad = _prefixed(_compare("history", case, tags, keys, [amounts[k] for k in keys], mode, _read(final, keys)),
                    "after-bystanders", "re-read")
    if bad is None and cls == "Material":
        bad = _prefixed(_through_parent("history", case, tags, final, natural), "after-bystanders", "re-read")
    return bad, amounts


def _trace_cases(subs):
    k = len(subs)
    for pos in range(k):
        for t in TRACE_VALUES:
            for others in itertools.product(TRACE_OTHERS, repeat=k - 1):
                props = list(others)
                props.insert(pos, t)
                for scale in TRACE_SCALES:
                    for norm in ("number", "mass"):
                        yield tuple(props), scale, norm


# ------------------------------------------------------------------------------------------ plan / shards
def _tuples():
    out = []
    for k in (1, 2, 3):
        out.extend(itertools.permutations(SUBSTANCES, k))
    return out


def plan(tier, seed):
    win = None if tier == "thorough" else seed % NWIN
    shards = [("substance",)]
    for t in _tuples():
        for nat in (False, True):
            shards.append(("material", t, nat, win))
    for t in list(itertools.permutations(SUBSTANCES, 2)) + list(itertools.permutations(TRACE_TRIPLE, 3)):
        shards.append(("trace", t))
    shards.append(("explicit",))
    winp = None if tier == "thorough" else seed % NWIN_PART
    shards.append(("particle", 1, None, winp))
    for t in itertools.permutations(PART_SUBSTANCES, 2):
        shards.append(("particle", 2, t, winp))       # k = 2: this pair
        shards.append(("particle", 3, t, winp))       # k = 3: this pair followed by every third substance
    wins = None if tier == "thorough" else seed % NWIN_STR
    for k in (2, 3):
        for first in SPELLINGS:
            shards.append(("string", k, first, wins))
    for start, (cls, _, _, _) in HIST_STARTS.items():
        for nat in (False, True):
            if nat and start not in HIST_NATURAL_TOO:
                continue
            for first in range(len(HIST_OPS[cls])):
                shards.append(("history", start, nat, first, HDEPTH[tier]))
    return shards


def _selected(subs, props, scale, norm, nat, win):
    if win is None or len(subs) <= 2:
        return True
    return hash((subs, props, scale, norm, nat)) % NWIN == win


def run_shard(desc):
    _TP.clear()
    sh = _run_shard(desc)
    for k_, n_ in _TP.items():
        sh.count(k_, n_)
    _TP.clear()
    if _LEAKS:
        sh.count("module-state-restored", len(_LEAKS))
        sh.add_extra("module_state_leaks", sorted(set(_LEAKS))[:10])
        del _LEAKS[:]
    return sh


def _run_shard(desc):
    sh = Shard(PROPERTY)
    if desc[0] == "substance":
        for f in SUB_FORMULAS:
            for mult in SUB_MULT:
                for nat in (False, True):
                    bad = check_substance(f, mult, nat)
                    sh.evaluations += 1
                    if len(SUB_ATOMS[f]) >= 2:
                        sh.nontrivial += 1
                    sh.count("substance")
                    if bad:
                        sh.fail(bad)
                    _restore()
        sh.sample(dict(kind="substance", formula="Ca(OH)2", mult=0.5))
        return sh
    if desc[0] == "explicit":
        for key in EXPLICIT_KEYS:
            for pos in (0, 1, 2):
                for norm in ("number", "mass"):
                    for nat in (False, True):
                        for via in ("dict", "add"):
                            bad = check_explicit(key, pos, norm, nat, via)
                            sh.evaluations += 1
                            sh.nontrivial += 1
                            sh.count("explicit")
                            if bad:
                                sh.fail(bad)
                            _restore()
        sh.sample(dict(kind="explicit", key="H * 2 + O", pos=1, norm="mass", via="add"))
        return sh
    if desc[0] == "particle":
        _, k, head, win = desc
        if k == 1:
            tuples = [(a,) for a in PART_SUBSTANCES]
        elif k == 2:
            tuples = [tuple(head)]
        else:
            tuples = [tuple(head) + (c,) for c in PART_SUBSTANCES if c not in head]
        for subs in tuples:
            for props in itertools.product(PART_PROPS, repeat=k):
                for scale in PART_SCALES:
                    for norm in ("number", "mass"):
                        for nat in (False, True):
                            for form in PART_FORMS:
                                if k == 3 and win is not None and \
                                        hash((subs, props, scale, norm, nat, form)) % NWIN_PART != win:
                                    sh.count("particle:outside-window")
                                    continue
                                dual = (scale == 1 and norm == "number" and form == "dict")
                                bad = check_material(subs, props, scale, norm, nat, duality=dual, form=form)
                                sh.evaluations += 1
                                sh.count("particle:k=%d:%s" % (k, norm))
                                sh.count("particle:" + form)
                                if any(s_.startswith("[") for s_ in subs):
                                    sh.count("particle:nucleon-first:" + norm)
                                if dual:
                                    sh.count("particle:duality")
                                if k >= 2:
                                    sh.nontrivial += 1
                                if bad:
                                    sh.fail(bad)
                                _restore()
        if k >= 2:
            sh.sample(dict(kind="material", subs=list(tuples[0]), props=[1, 78.084, 1][:k], scale=0.01, norm="mass",
                           form="str"))
        return sh
    if desc[0] == "trace":
        subs = desc[1]
        for props, scale, norm in _trace_cases(subs):
            bad = check_material(subs, props, scale, norm, False)
            sh.evaluations += 1
            sh.nontrivial += 1
            sh.count("trace:k=%d" % len(subs))
            if bad:
                bad["tags"] = sorted(set(bad["tags"]) | {"trace-component"})
                sh.fail(bad)
            _restore()
        sh.sample(dict(kind="material", subs=list(subs), props=[8.7e-8] + [78.084] * (len(subs) - 1), scale=1e-3))
        return sh
    if desc[0] == "string":
        _, k, first, win = desc
        subs = STR_SUBSTANCES[k]
        for rest in itertools.product(SPELLINGS, repeat=k - 1):
            spell = (first,) + rest
            for norm in ("number", "mass"):
                for nat in (False, True):
                    if k == 3 and win is not None and hash((spell, norm, nat)) % NWIN_STR != win:
                        sh.count("string:outside-window")
                        continue
                    bad = check_string(subs, spell, norm, nat)
                    sh.evaluations += 1
                    sh.nontrivial += 1
                    sh.count("string:k=%d" % k)
                    if any(("e-" in p.lower() or "e+" in p.lower()) for p in spell):
                        sh.count("string:signed-exponent")
                    if bad:
                        sh.fail(bad)
                    _restore()
        sh.sample(dict(kind="string", expr="%s <H2O> 2e-07 <NaCl>" % first))
        return sh
    if desc[0] == "history":
        _, start, nat, first, depth = desc
        cls, _, amounts0, _ = HIST_STARTS[start]
        for h in R.histories(HIST_OPS[cls], depth):
            if h[0] != HIST_OPS[cls][first]:
                continue
            bad, amounts = check_history(start, nat, h)
            sh.evaluations += 1
            sh.nontrivial += 1
            sh.transitions += len(h)
            sh.traces += 1
            sh.add_to_set("hstates", R.state_key(start + (":nat" if nat else ":abu"), amounts))
            sh.add_to_set("hdepth", len(h))
            for t in R.history_tags(amounts0, h):
                if t.startswith("last:"):
                    sh.count("history:" + t)
            if bad:
                sh.fail(bad)
            _restore()
            if len(h) == 2 and len(sh.samples) < 1:
                sh.sample(dict(kind="history", start=start, natural=nat, history=h))
        return sh
    _, subs, nat, win = desc
    k = len(subs)
    for props in itertools.product(PROPS, repeat=k):
        for scale in SCALES:
            for norm in ("number", "mass"):
                if not _selected(subs, props, scale, norm, nat, win):
                    sh.count("outside-window")
                    continue
                dual = (scale == 1 and norm == "number")
                bad = check_material(subs, props, scale, norm, nat, duality=dual)
                sh.evaluations += 1
                sh.count("material:k=%d:%s" % (k, norm))
                if dual:
                    sh.count("duality")
                if k >= 2:
                    sh.nontrivial += 1
                if bad:
                    sh.fail(bad)
                _restore()
                if k == 3 and scale == 0.1 and len(sh.samples) < 1:
                    sh.sample(dict(subs=list(subs), props=list(props), scale=scale, norm=norm, natural=nat))
    return sh


def replay(rec):
    c = rec["case"]
    try:
        if c["kind"] == "substance":
            return check_substance(c["formula"], c["mult"], c["natural"])
        if c["kind"] == "explicit":
            return check_explicit(c["key"], c["pos"], c["norm"], c["natural"], c["via"])
        if c["kind"] == "string":
            return check_string(c["subs"], c["spellings"], c["norm"], c["natural"])
        if c["kind"] == "history":
            return check_history(c["start"], c["natural"], c["history"])[0]
        form = c.get("form", "dict")
        return check_material(tuple(c["subs"]), tuple(c["props"]), c["scale"], c["norm"], c["natural"],
                              duality=(form == "dict" and (c["kind"] == "duality" or
                                                           (c["scale"] == 1 and c["norm"] == "number"))), form=form)
    finally:
        _restore()


def finish(total, tier, seed):
    h = total.hist
    for key in ("material:k=1:number", "material:k=2:mass", "material:k=3:number", "material:k=3:mass", "duality",
                "substance"):
        if not h.get(key):
            raise HarnessError("vacuous run: no case under " + key)
    for key in ("string:k=2", "string:k=3", "string:signed-exponent", "trace:k=2", "trace:k=3", "explicit",
                "particle:k=1:mass", "particle:k=2:number", "particle:k=2:mass", "particle:k=3:number",
                "particle:k=3:mass", "particle:nucleon-first:number", "particle:nucleon-first:mass",
                "particle:dict", "particle:str", "particle:duality"):
        if not h.get(key):
            raise HarnessError("vacuous run: no case under " + key)
    for key in ("add-existing", "add-new", "plus-shared", "plus-shared-last", "plus-disjoint", "mul",
                "pluscomp-existing", "pluscomp-new", "iadd", "imul"):
        if not h.get("history:last:" + key):
            raise HarnessError("vacuous run: no history ends with " + key)
    for key in ("through-parent:components", "through-parent:proportion!=1"):
        if not h.get(key):
            raise HarnessError("vacuous run: no case under " + key)
    hstates = total.sets.get("hstates", set())
    total.states = len(hstates)
    total.max_depth = max(total.sets.get("hdepth", {0}))
    full = sum(len(PROPS) ** k * len(list(itertools.permutations(SUBSTANCES, k))) for k in (1, 2, 3)) \
        * len(SCALES) * 2 * 2
    return dict(
        bounds=dict(substances=SUBSTANCES, k="1..3 ordered, distinct", proportions=PROPS, scalings=SCALES,
                    modes=["number", "mass"], isotope_modes=["natural", "abundant"],
                    substance_formulas=SUB_FORMULAS, substance_multipliers=SUB_MULT),
        full_space=full, duality_cases=h.get("duality", 0),
        states=len(hstates), transitions=total.transitions, traces_validated_against_impl=total.traces,
        max_depth=total.max_depth,
        particle_bounds=dict(substances=PART_SUBSTANCES, k="1..3 ordered, distinct", proportions=PART_PROPS,
                             scalings=PART_SCALES, modes=["number", "mass"], isotope_modes=["natural", "abundant"],
                             forms=PART_FORMS, cases=sum(h.get("particle:" + f, 0) for f in PART_FORMS),
                             nucleon_first_mass_mode=h.get("particle:nucleon-first:mass", 0),
                             duality_cases=h.get("particle:duality", 0),
                             window="all" if tier == "thorough" else
                             "k<=2 complete + window %d of %d of k=3" % (seed % NWIN_PART, NWIN_PART)),
        explicit_bounds=dict(keys=EXPLICIT_KEYS, position=[0, 1, 2], via=["dict", "add"], modes=["number", "mass"],
                             isotope_modes=["natural", "abundant"]),
        trace_bounds=dict(values=TRACE_VALUES, others=TRACE_OTHERS, scales=TRACE_SCALES, position="every",
                          tuples="20 ordered pairs + 6 orders of %s" % TRACE_TRIPLE, modes=["number", "mass"]),
        string_bounds=dict(spellings=SPELLINGS, substances=STR_SUBSTANCES, modes=["number", "mass"],
                           isotope_modes=["natural", "abundant"],
                           window="all" if tier == "thorough" else
                           "k=2 complete + window %d of %d of k=3" % (seed % NWIN_STR, NWIN_STR)),
        module_state_restored=h.get("module-state-restored", 0),
        through_parent=dict(component_substances_read=h.get("through-parent:components", 0),
                            of_which_held_with_proportion_not_1=h.get("through-parent:proportion!=1", 0),
                            where="every Material of the material / duality / particle / trace / explicit / string "
                                  "sub-spaces and, in histories, the final material, every operand and bystander",
                            oracle="sum x = sum X = 100, X_i ~ n_i m_i, x and X equal to a stand-alone Substance"),
        history_bounds=dict(starts=sorted(HIST_STARTS), operations=HIST_OPS, depth=HDEPTH[tier],
                            bystanders={k: sorted(v) for k, v in BYSTANDERS.items()},
                            isotope_modes=dict(abundant="all starts", natural=HIST_NATURAL_TOO),
                            pruning="none (every history executed)"),
        window="all" if tier == "thorough" else "k<=2 complete + window %d of %d of k=3" % (seed % NWIN, NWIN),
        exhaustive=(tier == "thorough"),
        caps_hit=[] if tier == "thorough" else ["quick executes 1 of %d windows of the k=3 mixtures" % NWIN,
                                                 "quick executes 1 of %d windows of the k=3 particle mixtures"
                                                 % NWIN_PART],
        skipped_outside_window=h.get("outside-window", 0) + h.get("particle:outside-window", 0),
    )


MANIFEST = dict(
    text="Bounded-exhaustive enumeration of mixtures on the real Material class: every ordered tuple of 1-3 substances "
         "from {H2O, NaCl, O2, Ar, CO2} x proportions {1, 2, 0.5, 78.084}^k x common scaling {1, 2, 0.1, 100, 1e-6, 1e-9, "
         "1e-12} x both normalisation modes x both isotope modes (117 040 materials; quick: k<=2 complete plus one "
         "seed-selected window of 24 for k=3); trace proportions {8.7e-8, 1e-9, 1e-12} at every position next to "
         "{1, 78.084} at scales {1, 1e-3}. x and X are compared with the closed formulas computed from the UNscaled proportions "
         "(rel 1e-10), sums with 100 (abs 1e-9); every unscaled number-fraction material is rebuilt from its reported "
         "mass fractions and must report the same x and X (rel 1e-9); the same formulas are checked over the atoms of "
         "11 substances (3 with nucleons as constituents) and their multiples. Kind of constituents: every ordered "
         "tuple of 1-3 substances from {[p], [n], [e], [e]He{4-2}, [p]3[n]2[e], H[e], H, H2O} (free nucleons, nucleon "
         "first / not first, ordinary partners) x proportions {1, 78.084}^k x scaling {1, 0.01} x both modes x both "
         "isotope modes x input form {dict, expression string} (46 848 materials; quick: k<=2 complete plus one "
         "window of 48 for k=3), same closed formulas and duality. Components written in the explicit formula notation ('H * 2 + O', ...) "
         "as dict keys and through add() must have the mass of the stand-alone substance. Materials written as "
         "expression strings: all 17^2 (quick: + one window of "
         "20 of the 17^3) tuples of proportion spellings incl. signed, unsigned and upper-case exponents and trace "
         "values x modes, vs the "
         "closed formulas and the dictionary twin. Live composites: every history of <= 2 (thorough 3) operations "
         "{add existing/new, + sharing/disjoint composite, + component object, * k, +=, *=, partial table "
         "reads} on 5 start objects (most abundant isotopes; the two dictionary materials also with natural "
         "ones), vs closed formulas and a freshly constructed composite, with re-read of operands and of the live "
         "object after fresh bystander composites sharing its formulas were built. Every component substance of "
         "every material built in any of these sub-spaces (incl. history results, operands and bystanders) is also "
         "read through its parent (material.components[expr].data_composite()) for every held proportion and both "
         "parent modes: sum x = sum X = 100 over its elements, X_i ~ n_i m_i, and x, X equal to a stand-alone "
         "Substance of the same expression.",
    note="Trusted: the component masses reported by data_components() (property C10), float() as the meaning of a "
         "proportion spelling. Not covered: the avg row, proportions outside the alphabet, more than 3 components in "
         "a constructor, histories beyond the depth bound.",
    technique="bounded product enumeration executed on the implementation, closed-form oracle and round-trip",
)
