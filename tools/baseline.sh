#!/bin/bash
# usage: tools/baseline.sh [repo-dir]  -> runs the pinned baseline suite with the guard OFF, prints the summary line
d=${1:-/repo}
cd "$d" && env -u SCINUMTOOLS_VERIF PYTHONPATH="$d/src" /venv/bin/python -m pytest -q -p no:cacheprovider --timeout=900 --continue-on-collection-errors -W ignore 2>&1 | grep -E "passed|failed|error" | tail -3
