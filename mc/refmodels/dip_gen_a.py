"""Generator AST, renderer and reference interpretation for the DIP subset of C13 / C14.

The reference NEVER parses DIP text: programs are built as lists of line records (the AST), `render` turns them into
text for the library, `interpret` computes the expected parameters directly from the records.  No regular expression
and no code of scinumtools is used here; the few unit factors are written down by hand (SI definitions).

A program is a list of dict records ("lines"):
  group    dict(k='group', d=depth, name=str)
  def      dict(k='def',   d=depth, name=str, type=kw, dims=str|None, lit=LIT, unit=str|None)
  decl     dict(k='decl',  d=depth, name=str, type=kw, dims=str|None, unit=str|None)
  mod      dict(k='mod',   d=depth, name=str, type=kw|None, dims=str|None, lit=LIT, unit=str|None)
  table    dict(k='table', d=depth, name=str, cols=[dict(name,type,dims,unit,cells=[text..],values=[..])])
  const    dict(k='const', d=depth)                      # "!constant", applies to the preceding node
  prop     dict(k='prop', d=depth, text=str)             # other property line of the preceding node (option
                                                         # "= value unit", "!condition (...)"); the generator makes sure
                                                         # every final value satisfies it, the reference ignores it
  unitdef  dict(k='unitdef', name=str, text=str)         # "$unit name = text"
  blank    dict(k='blank', text=str)                     # '' or only blanks
  comment  dict(k='comment', indent=int, text=str)       # comment-only line at an arbitrary indentation
a def may carry hide_unit=True: its unit is not written (it comes from the node injected by the literal text);
every record may carry tc=str (trailing comment) and an explicit 'indent' (number of blanks); otherwise the
indentation is computed from the depth by `layout`.
LIT = dict(text=str, value=python value or None, kind='bool|int|float|str|none|word', block=None|[content lines])
"""
from fractions import Fraction

# --------------------------------------------------------------------------------------------------------------
# data types as documented in docs/source/dip/syntax/datatypes.rst
TYPEINFO = {
    #  keyword     (Type class,    precision, unsigned, base)
    "bool":     ("BooleanType", None, None, "bool"),
    "str":      ("StringType",  None, None, "str"),
    "int":      ("IntegerType", 32, False, "int"),
    "int16":    ("IntegerType", 16, False, "int"),
    "int32":    ("IntegerType", 32, False, "int"),
    "int64":    ("IntegerType", 64, False, "int"),
    "uint":     ("IntegerType", 32, True,  "int"),
    "uint16":   ("IntegerType", 16, True,  "int"),
    "uint32":   ("IntegerType", 32, True,  "int"),
    "uint64":   ("IntegerType", 64, True,  "int"),
    "float":    ("FloatType",   64, None,  "float"),
    "float32":  ("FloatType",   32, None,  "float"),
    "float64":  ("FloatType",   64, None,  "float"),
    "float128": ("FloatType",  128, None,  "float"),
}

# units of the C14 alphabet: factor to the SI unit of the dimension (exact, by definition of the units), dimension
UNITS = {
    "m":    (Fraction(1), "length"),
    "cm":   (Fraction(1, 100), "length"),
    "mm":   (Fraction(1, 1000), "length"),
    "um":   (Fraction(1, 10 ** 6), "length"),
    "km":   (Fraction(1000), "length"),
    "J":    (Fraction(1), "energy"),
    "erg":  (Fraction(1, 10 ** 7), "energy"),
    "eV":   (Fraction(1602176634, 10 ** 28), "energy"),
    "s":    (Fraction(1), "time"),
    "[cu]": (Fraction(1, 2), "length"),          # custom unit, defined in the program by CU_LINE
    # affine units: kelvin = (x + OFFSETS[u]) * factor
    "K":    (Fraction(1), "temperature"),
    "Cel":  (Fraction(1), "temperature"),
    "degF": (Fraction(5, 9), "temperature"),
    # logarithmic level of a power ratio: bel = log10(PR); only the exact pairs of LEVEL_PR are ever generated
    "B":    (Fraction(1), "level"),
    "dB":   (Fraction(1, 10), "level"),
    "PR":   (None, "level"),
}
OFFSETS = {"Cel": Fraction(27315, 100), "degF": Fraction(45967, 100)}
LEVEL_PR = {Fraction(0): Fraction(1), Fraction(-2): Fraction(1, 100), Fraction(4): Fraction(10000),
            Fraction(2): Fraction(100)}        # bel -> power ratio, exact powers of ten


def convert_exact(x, unit_from, unit_to):
    """Fraction x written in unit_from, expressed in unit_to (same dimension)"""
    if unit_from == unit_to:
        return x
    if UNITS[unit_from][1] == "level":
        if unit_from == "PR":
            inv = {v: k for k, v in LEVEL_PR.items()}
            if x not in inv:
                raise ValueError("generator: power ratio %r has no exact level" % (x,))
            bel = inv[x]
        else:
            bel = x * UNITS[unit_from][0]
        if unit_to == "PR":
            if bel not in LEVEL_PR:
                raise ValueError("generator: level %r B has no exact power ratio" % (bel,))
            return LEVEL_PR[bel]
        return bel / UNITS[unit_to][0]
    base = (x + OFFSETS.get(unit_from, 0)) * UNITS[unit_from][0]
    return base / UNITS[unit_to][0] - OFFSETS.get(unit_to, 0)
CU_LINE = dict(k="unitdef", name="cu", text="0.5 m")


def lit(text, value, kind=None, block=None, exact=None):
    """a literal: `text` is what is written, `value` what it means, `exact` the same as Fraction(s) when the
    literal takes part in unit conversions"""
    if kind is None:
        kind = ("none" if value is None else "bool" if isinstance(value, bool) else "int" if isinstance(value, int)
                else "float" if isinstance(value, float) else "str" if isinstance(value, str) else "array")
    return dict(text=text, value=value, kind=kind, block=block, exact=exact)


# --------------------------------------------------------------------------------------------------------------
# rendering
def layout(prog, widths=(2, 2, 2, 2), per_parent=None):
    """Number of blanks in front of every hierarchical line.

    widths[d] = blanks added when going from depth d to depth d+1.  per_parent: optional dict
    {index of parent line: width used for the children of that line} overriding `widths`.
    Returns a list (None for lines that carry their own indentation)."""
    indents = []
    stack = []                      # (depth, indent, line index)
    for i, ln in enumerate(prog):
        if ln["k"] in ("blank", "comment", "unitdef"):
            indents.append(ln.get("indent", 0))
            continue
        d = ln["d"]
        if ln["k"] in ("const", "prop"):
            # property lines are indented deeper than the node they belong to and take no part in the hierarchy
            indents.append(_indent_for(stack, d, widths, per_parent))
            continue
        while stack and stack[-1][0] >= d:
            stack.pop()
        ind = _indent_for(stack, d, widths, per_parent)
        indents.append(ind)
        stack.append((d, ind, i))
    return indents


def _indent_for(stack, d, widths, per_parent):
    if not stack:
        return 0
    pd, pind, pi = stack[-1]
    w = widths[pd]
    if per_parent and pi in per_parent:
        w = per_parent[pi]
    return pind + w


def render(prog, widths=(2, 2, 2, 2), per_parent=None, base=0):
    """base: number of blanks put in front of EVERY node / group / property line (uniform base indentation of the
    text; block content, table content and comment-only lines keep their own columns)"""
    ind = layout(prog, widths, per_parent)
    out = []
    for ln, n in zip(prog, ind):
        k = ln["k"]
        sp = " " * (n + base)
        tc = ("   # " + ln["tc"]) if ln.get("tc") is not None else ""
        if k == "blank":
            out.append(ln["text"])
        elif k == "comment":
            out.append(" " * ln["indent"] + "# " + ln["text"])
        elif k == "unitdef":
            out.append("$unit %s = %s" % (ln["name"], ln["text"]) + tc)
        elif k == "group":
            out.append(sp + ln["name"] + tc)
        elif k == "const":
            out.append(sp + "!constant" + tc)
        elif k == "prop":
            out.append(sp + ln["text"] + tc)
        elif k == "import":
            out.append(sp + ln["text"] + tc)
        elif k == "decl":
            out.append(sp + ln["name"] + " " + ln["type"] + (ln.get("dims") or "")
                       + ((" " + ln["unit"]) if ln.get("unit") else "") + tc)
        elif k in ("def", "mod"):
            head = sp + ln["name"]
            if ln.get("type"):
                head += " " + ln["type"] + (ln.get("dims") or "")
            unit = (" " + ln["unit"]) if (ln.get("unit") and not ln.get("hide_unit")) else ""
            L = ln["lit"]
            if L.get("block") is not None:
                out.append(head + ' = """')
                out.extend(L["block"])
                out.append(sp * (1 if ln.get("close_indented") else 0) + '"""' + unit + tc)
            else:
                out.append(head + " = " + L["text"] + unit + tc)
        elif k == "table":
            out.append(sp + ln["name"] + ' table = """')
            for c in ln["cols"]:
                out.append(c["name"] + " " + c["type"] + (c.get("dims") or "")
                           + ((" " + c["unit"]) if c.get("unit") else ""))
            out.append("")
            nrows = len(ln["cols"][0]["cells"])
            for r in range(nrows):
                out.append(" ".join(c["cells"][r] for c in ln["cols"]))
            out.append('"""' + tc)
        else:
            raise ValueError("unknown line kind %r" % k)
    return "\n".join(out)


def parents_by_indent_rule(prog, indents):
    """The statement's textual rule: parent = nearest preceding node/group line with smaller indentation.
    Used as a self-check of the generator (tree structure == rule applied to the rendered indentation)."""
    res = {}
    seen = []                                   # (indent, index) of node/group lines so far
    for i, ln in enumerate(prog):
        if ln["k"] not in ("group", "def", "decl", "mod", "table"):
            continue
        par = None
        for ind, j in reversed(seen):
            if ind < indents[i]:
                par = j
                break
        res[i] = par
        seen.append((indents[i], i))
    return res


def parents_by_depth(prog):
    res = {}
    stack = []
    for i, ln in enumerate(prog):
        if ln["k"] not in ("group", "def", "decl", "mod", "table"):
            continue
        while stack and stack[-1][0] >= ln["d"]:
            stack.pop()
        res[i] = stack[-1][1] if stack else None
        stack.append((ln["d"], i))
    return res


# --------------------------------------------------------------------------------------------------------------
# reference interpretation
class Rejected(Exception):
    """The program must make parse() fail; args[0] names the reason."""


def _base(kw):
    return TYPEINFO[kw][3]


def _compatible(base, L):
    """May literal L be assigned to a node of base type `base`?  None = the statement is silent (never generated)."""
    k = L["kind"]
    if k == "none":
        return True
    if k == "array":
        return True                      # element kinds are the generator's responsibility
    if base == "bool":
        return k == "bool"
    if base == "int":
        return True if k == "int" else False if k in ("word", "bool") else None
    if base == "float":
        return True if k in ("int", "float") else False if k in ("word", "bool") else None
    if base == "str":
        return True
    return None


def _as_type(base, v):
    """value of literal `v` (already a python value) as stored in a node of base type"""
    if v is None:
        return None
    if isinstance(v, list):
        return [_as_type(base, x) for x in v]
    if base == "float":
        return float(v)
    if base == "str":
        return v
    return v


def _convert(v, exact, unit_from, unit_to):
    """numeric value written in unit_from expressed in unit_to (Fractions all the way, one rounding at the end)"""
    if v is None:
        return None
    if isinstance(v, list):
        return [_convert(x, e, unit_from, unit_to) for x, e in zip(v, exact)]
    return convert_exact(exact, unit_from, unit_to)       # a Fraction; the caller decides how to compare


def interpret(prog):
    """-> list of parameter dicts in order of first appearance, or raises Rejected(reason).

    parameter: dict(path, cls, precision, unsigned, unit, value, base, converted)
    `value` is a python value / nested list / None; for values that went through a unit conversion it holds
    Fractions (exact) and converted=True."""
    params = {}
    order = []
    stack = []                                # (depth, name)
    last_node = None
    reject = None
    for ln in prog:
        k = ln["k"]
        if k in ("blank", "comment", "unitdef", "prop"):
            continue
        if k == "const":
            if last_node is not None:
                params[last_node]["constant"] = True
            continue
        d = ln["d"]
        while stack and stack[-1][0] >= d:
            stack.pop()
        if k == "import":
            # `{?src.*}` below a group: every node below `src` so far is copied (value, type, unit as they stand
            # at this line) to the same relative path below the group
            prefix = ".".join(n for _, n in stack)
            for sp_ in [q for q in order if q.startswith(ln["src"] + ".")]:
                np_ = (prefix + "." if prefix else "") + sp_[len(ln["src"]) + 1:]
                if np_ in params:
                    raise ValueError("generator: import over an existing node is not part of the subset")
                params[np_] = dict(params[sp_], path=np_)
                order.append(np_)
            continue
        path = ".".join([n for _, n in stack] + [ln["name"]])
        stack.append((d, ln["name"]))
        if k == "group":
            continue
        if k == "table":
            stack.pop()                      # the table line itself is not a parent (nothing is generated below it)
            for c in ln["cols"]:
                cpath = path + "." + c["name"]
                cls, prec, uns, base = TYPEINFO[c["type"]]
                params[cpath] = dict(path=cpath, cls=cls, precision=prec, unsigned=uns, unit=c.get("unit"),
                                     value=_as_type(base, c["values"]), base=base, converted=False,
                                     assigned=True, constant=False)
                order.append(cpath)
            continue
        if path not in params:
            if k == "mod" and not ln.get("type"):
                reject = reject or "modification of an undefined node"
                continue
            cls, prec, uns, base = TYPEINFO[ln["type"]]
            p = dict(path=path, cls=cls, precision=prec, unsigned=uns, unit=ln.get("unit"), base=base,
                     value=None, converted=False, assigned=False, constant=False)
            params[path] = p
            order.append(path)
            if k != "decl":
                ok = _compatible(base, ln["lit"])
                if ok is None:
                    raise ValueError("generator produced a literal the statement is silent about: %r" % (ln,))
                if not ok:
                    reject = reject or "value of another data type"
                else:
                    p["value"] = _as_type(base, ln["lit"]["value"])
                    p["assigned"] = True
                    if ln.get("approx"):
                        # value computed by the library in floating point (function result): compared to 1e-12
                        p["value"] = ln["lit"]["exact"]
                        p["converted"] = True
            last_node = path
            continue
        # ---- a later occurrence of an existing node: modification
        p = params[path]
        last_node = path
        if k == "decl":
            raise ValueError("generator: declaration of an existing node is not part of the subset")
        if p["constant"]:
            reject = reject or "assignment to a constant node"
            continue
        if ln.get("type") and _base(ln["type"]) != p["base"]:
            reject = reject or "assignment with another data type"
            continue
        L = ln["lit"]
        ok = _compatible(p["base"], L)
        if ok is None:
            raise ValueError("generator produced a literal the statement is silent about: %r" % (ln,))
        if not ok:
            reject = reject or "value of another data type"
            continue
        mu = ln.get("unit")
        if mu and not p["unit"]:
            raise ValueError("generator: unit on a modification of a unit-less node is not demanded")
        if mu and L["value"] is None and UNITS[mu][1] != UNITS[p["unit"]][1]:
            raise ValueError("generator: none with a unit of another dimension is not demanded")
        if mu and UNITS[mu][1] != UNITS[p["unit"]][1]:
            reject = reject or "unit of another dimension"
            continue
        if L["value"] is None:
            # `none` (the generators write a unit behind it only on INTERMEDIATE assignments): the node is empty,
            # type and unit stay those of the first occurrence; later assignments are not influenced by it
            p["value"] = None
            p["converted"] = False
            p["assigned"] = True
            continue
        if mu and mu != p["unit"]:
            p["value"] = _convert(L["value"], L["exact"], mu, p["unit"])
            p["converted"] = True
        else:
            p["value"] = _as_type(p["base"], L["value"])
            p["converted"] = False
            if ln.get("approx"):
                p["value"] = L["exact"]
                p["converted"] = True
        p["assigned"] = True
    if reject:
        raise Rejected(reject)
    for path in order:
        if not params[path]["assigned"]:
            raise Rejected("declared node left without value")
    return [params[path] for path in order]


# --------------------------------------------------------------------------------------------------------------
# running the real library and comparing (harness side; the only place that touches scinumtools)
def error_class(got):
    """behaviour class of an ('err', type, message) outcome of `execute`"""
    if got[1] == "EnvironmentUnreadable":
        inner = got[2].split("'")[1] if "'" in got[2] else "?"
        return "environment-unreadable:" + inner
    return "raises:" + got[1]


def _py(v):
    """numpy scalars / arrays -> plain python"""
    if hasattr(v, "tolist") and not isinstance(v, (str, bytes)):
        return v.tolist()
    if isinstance(v, tuple):
        return [_py(x) for x in v]
    if isinstance(v, list):
        return [_py(x) for x in v]
    return v


class EnvironmentUnreadable(Exception):
    """parse() returned an environment, but env.data() raised on it"""


_SCRATCH = None


def scratch_file():
    """per-process scratch file for the add_file entry point (removed by remove_scratch_file)"""
    global _SCRATCH
    if _SCRATCH is None:
        import os
        import tempfile
        d = "/dev/shm/dip-A"
        try:
            os.makedirs(d, exist_ok=True)
        except OSError:
            d = tempfile.gettempdir()
        _SCRATCH = os.path.join(d, "verif-dip-%d.dip" % os.getpid())
    return _SCRATCH


def remove_scratch_file():
    import os
    if _SCRATCH is not None and os.path.exists(_SCRATCH):
        os.remove(_SCRATCH)


def execute(texts, entry="string", functions=None):
    """Parse a chain of DIP texts (text k+1 is parsed by DIP(env_k)); observe env.data(TYPE) and env.data(TUPLE).

    entry: 'string' = DIP.add_string(text), 'file' = the text is written to a scratch file (UTF-8, newlines
    untranslated) and given to DIP.add_file.  functions: {name: callable} registered with DIP.add_function.
    -> list of observed parameter dicts (path, cls, precision, unsigned, unit, value, tuple_ok)"""
    from scinumtools.dip import DIP
    from scinumtools.dip.settings import Format
    env = None
    for text in texts:
        with DIP(env) as dip:
            for name, fn in (functions or {}).items():
                dip.add_function(name, fn)
            if entry == "file":
                path = scratch_file()
                with open(path, "w", encoding="utf-8", newline="") as f:
                    f.write(text)
                dip.add_file(path)
            else:
                dip.add_string(text)
            env = dip.parse()
    try:
        typed = env.data(Format.TYPE)
        tup = env.data(Format.TUPLE)
    except Exception as e:
        raise EnvironmentUnreadable(type(e).__name__, str(e)[:200])
    out = []
    if list(typed) != list(tup):
        return [dict(path="<formats>", cls="paths of Format.TYPE and Format.TUPLE differ", precision=None,
                     unsigned=None, unit=None, value=[list(typed), list(tup)], tuple_ok=False)]
    for path, t in typed.items():
        cls = type(t).__name__
        val = _py(t.value)
        unit = getattr(t, "unit", None)
        want = [val, unit] if (cls in ("IntegerType", "FloatType") and unit is not None) else val
        got = _py(tup[path])
        out.append(dict(path=path, cls=cls, precision=getattr(t, "precision", None),
                        unsigned=getattr(t, "unsigned", None), unit=unit, value=val,
                        tuple_ok=(_same(want, got, None) and _kind(want) == _kind(got))))
    return out


def _kind(v):
    if v is None:
        return "none"
    if isinstance(v, bool):
        return "bool"
    if isinstance(v, (int, float, Fraction)):
        return "num"
    if isinstance(v, str):
        return "str"
    if isinstance(v, list):
        return "list"
    return type(v).__name__


def _same(e, o, rel):
    """expected e (python value, Fraction for converted numbers, nested lists) against observed o"""
    ke, ko = _kind(e), _kind(o)
    if ke != ko:
        return False
    if ke == "list":
        return len(e) == len(o) and all(_same(a, b, rel) for a, b in zip(e, o))
    if ke == "num":
        if o != o:
            return False
        if isinstance(e, Fraction):
            if e == 0:
                return o == 0
            return abs(Fraction(o) - e) <= Fraction(rel or 0) * abs(e)
        if isinstance(e, int) and abs(e) > 2 ** 53:
            # integers beyond the float mantissa: the payload must be an exact Python int (never compared via floats)
            return isinstance(o, int) and not isinstance(o, bool) and int(o) == e and str(o) == str(e)
        return e == o
    return e == o


def _show(v):
    if isinstance(v, Fraction):
        return float(v)
    if isinstance(v, list):
        return [_show(x) for x in v]
    return v


def expected_view(params):
    return [dict(path=p["path"], cls=p["cls"], precision=p["precision"], unsigned=p["unsigned"], unit=p["unit"],
                 value=_show(p["value"])) for p in params]


def observed_view(obs):
    return [{k: v for k, v in o.items() if k != "tuple_ok"} for o in obs]


def compare(params, obs, rel=1e-12):
    """-> None if the observation is what the reference demands, else a short behaviour class"""
    ep = [p["path"] for p in params]
    op = [o["path"] for o in obs]
    if ep != op:
        if sorted(ep) == sorted(op):
            return "order-differs"
        return "paths-differ"
    for p, o in zip(params, obs):
        if p["cls"] != o["cls"]:
            return "type-differs"
        if p["precision"] != o["precision"] or p["unsigned"] != o["unsigned"]:
            return "precision-or-sign-differs"
        if (p["unit"] or None) != (o["unit"] or None):
            return "unit-differs"
        if not _same(p["value"], o["value"], rel if p.get("converted") else None):
            if o["value"] is None:
                return "value-is-none"
            return "value-differs"
        if not o["tuple_ok"]:
            return "formats-disagree"
    return None


def prime_inspect_cache():
    """Harness speed measure, no effect on results.  DIP() and add_string() call inspect.stack(); for every frame
    whose file cannot be mapped to a module (the '<frozen runpy>' frames below `python -m mc.main`) inspect.getmodule
    scans all of sys.modules again on every call (several ms per DIP object).  Registering those files once in
    inspect's own file->module cache makes the lookup a dictionary hit.  The library only reads caller.filename and
    caller.lineno from the result, which do not depend on this cache."""
    import sys
    import inspect
    f = sys._getframe()
    while f is not None:
        fn = f.f_code.co_filename
        if fn not in inspect.modulesbyfile:
            inspect.getmodule(f, fn)                       # the regular scan, once
            name = f.f_globals.get("__name__")
            if fn not in inspect.modulesbyfile and name in sys.modules:
                inspect.modulesbyfile[fn] = name
        f = f.f_back
