"""Shared plumbing: repo path, per-case time-outs, failure records, shard results."""
import os
import sys
import signal
import contextlib

VERIF = os.path.dirname(os.path.dirname(os.path.abspath(__file__)))
REPO = os.environ.get("VERIF_REPO", "/repo")
SRC = os.path.join(REPO, "src")
GUARD = "SCINUMTOOLS_VERIF"


def use_repo():
    """Put the current working tree of the repository first on sys.path."""
    os.environ[GUARD] = "1"
    if sys.path[0] != SRC:
        if SRC in sys.path:
            sys.path.remove(SRC)
        sys.path.insert(0, SRC)
    import scinumtools  # noqa
    got = os.path.dirname(os.path.dirname(os.path.abspath(scinumtools.__file__)))
    if os.path.realpath(got) != os.path.realpath(SRC):
        raise HarnessError(f"scinumtools imported from {got}, expected {SRC}")


class HarnessError(Exception):
    """Something is wrong with the checking machinery (never a VIOLATION)."""


class CaseTimeout(BaseException):
    pass


def _alarm(signum, frame):
    raise CaseTimeout()


@contextlib.contextmanager
def case_timeout(seconds=20):
    """Bound one execution of library code (a mutated library may loop)."""
    old = signal.signal(signal.SIGALRM, _alarm)
    signal.setitimer(signal.ITIMER_REAL, seconds)
    try:
        yield
    finally:
        signal.setitimer(signal.ITIMER_REAL, 0)
        signal.signal(signal.SIGALRM, old)


def outcome(fn, *args, timeout=20, **kw):
    """Run fn and return ('ok', value) or ('err', ExceptionTypeName, message)."""
    try:
        with case_timeout(timeout):
            return ("ok", fn(*args, **kw))
    except CaseTimeout:
        return ("err", "CaseTimeout", "execution exceeded %ss" % timeout)
    except RecursionError as e:
        return ("err", "RecursionError", str(e)[:200])
    except Exception as e:  # library errors are observations, not harness errors
        try:
            msg = str(e)[:300]
        except BaseException:  # exception arguments whose repr itself raises
            msg = "<unprintable %s>" % type(e).__name__
        return ("err", type(e).__name__, msg)


def failure(sub, case, expected, observed, tags=(), behaviour="", note=""):
    """A disagreement between implementation and oracle.

    sub        sub-check name
    case       JSON-serialisable description sufficient to replay the case
    tags       features of the *input* (used to attribute known findings)
    behaviour  short classification of the *defective outcome*
    """
    return dict(sub=sub, case=case, expected=_js(expected), observed=_js(observed),
                tags=sorted(set(tags)), behaviour=behaviour, note=note)


def _js(x):
    import json
    try:
        json.dumps(x)
        return x
    except (TypeError, ValueError):
        return repr(x)


class Shard:
    """Accumulator returned by one worker for one shard."""

    def __init__(self, prop=None):
        self.prop = prop
        self.known = {}              # finding id -> dict(n=count, example=record)
        self.evaluations = 0
        self.nontrivial = 0          # distinct non-trivial cases (shards are disjoint by hash)
        self.failures = []
        self.failures_dropped = 0
        self.samples = []
        self.hist = {}
        self.states = 0
        self.transitions = 0
        self.traces = 0
        self.extra = {}              # numeric extras are summed, lists concatenated, else last wins
        self.max_depth = 0
        self.sets = {}               # name -> set, merged by union (e.g. canonical states)

    MAXF = 400

    def add_to_set(self, name, item):
        self.sets.setdefault(name, set()).add(item)

    def fail(self, rec):
        if self.prop is not None:
            from . import findings
            fid = findings.attribute(self.prop, rec)
            if fid is not None:
                k = self.known.setdefault(fid, dict(n=0, example=rec))
                k["n"] += 1
                return
        if len(self.failures) < self.MAXF:
            self.failures.append(rec)
        else:
            self.failures_dropped += 1

    def count(self, key, n=1):
        self.hist[key] = self.hist.get(key, 0) + n

    def sample(self, s, limit=6):
        if len(self.samples) < limit:
            self.samples.append(_js(s))

    def add_extra(self, key, val):
        if isinstance(val, (int, float)):
            self.extra[key] = self.extra.get(key, 0) + val
        else:
            self.extra[key] = val

    def merge(self, o):
        for fid, k in o.known.items():
            mine_ = self.known.setdefault(fid, dict(n=0, example=k["example"]))
            mine_["n"] += k["n"]
        self.evaluations += o.evaluations
        self.nontrivial += o.nontrivial
        room = 4000 - len(self.failures)
        self.failures.extend(o.failures[:max(room, 0)])
        self.failures_dropped += o.failures_dropped + max(len(o.failures) - max(room, 0), 0)
        for s in o.samples:
            if len(self.samples) < 12:
                self.samples.append(s)
        for k, v in o.hist.items():
            self.hist[k] = self.hist.get(k, 0) + v
        self.states += o.states
        self.transitions += o.transitions
        self.traces += o.traces
        self.max_depth = max(self.max_depth, o.max_depth)
        for k, v in o.sets.items():
            self.sets.setdefault(k, set()).update(v)
        for k, v in o.extra.items():
            if isinstance(v, (int, float)) and isinstance(self.extra.get(k, 0), (int, float)):
                self.extra[k] = self.extra.get(k, 0) + v
            elif isinstance(v, list) and isinstance(self.extra.get(k, []), list):
                self.extra[k] = (self.extra.get(k, []) + v)[:50]
            else:
                self.extra[k] = v


def mine(key, k, n):
    """Deterministic assignment of a case to shard k of n (PYTHONHASHSEED=0 is forced by ./run)."""
    return hash(key) % n == k


def prime_inspect_cache():
    """DIP() calls inspect.stack(); for frames whose file cannot be mapped to a module ('<frozen runpy>' of
    `python -m mc.main`) inspect rescans sys.modules on every call (8 ms instead of 1.5 ms per DIP()).  Register the
    frames of the current stack in inspect's own cache once.  The library only reads caller.filename/lineno."""
    import inspect
    f = sys._getframe()
    while f is not None:
        fn = f.f_code.co_filename
        if fn not in inspect.modulesbyfile:
            try:
                inspect.getmodule(f, fn)
            except Exception:
                pass
            name = f.f_globals.get("__name__")
            if fn not in inspect.modulesbyfile and name in sys.modules:
                inspect.modulesbyfile[fn] = name
        f = f.f_back
