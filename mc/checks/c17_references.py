"""C17 - references deliver the referenced node's current value and unit.

E2 part: bounded exhaustive enumeration of programs that define a tree of typed nodes below a group (float with unit,
int, str, bool, float[3], float[2,2], str[3], nodes with options+tags / condition / format / constant, a sub-group, a
look-alike sibling group),
modify a source node 0-2 times, and then inject from it (`{?path}` / `{src?path}` with every host unit choice and
every slice) or import from it (`{?g.*} {?g.x} {?*}` at root, under a group, as `name {..}`), followed by a
modification of source or host.  The same statements run against a remote source file (`$source` line and
`DIP.add_source`).  Oracle: reference interpretation of the generator AST (mc/refmodels/dip_gen_c.py).
E1 part: explicit-state exploration of chaining histories `parse P1 -> env1; DIP(env1) parse P2 -> env2; ...` over an
alphabet of programs (define, modify, inject, import, $unit, failing programs): after every step every earlier
environment's dump (nodes with all constraint fields, custom units) is unchanged, and the new environment equals the
reference interpretation of the concatenated history.
"""
import os
import itertools

from ..common import Shard, failure, mine, HarnessError
from ..refmodels import dip_gen_c as G

PROPERTY = "C17"
LEVEL = "model_checking"
RULE = ("E2: case = distinct DIP text (source tree x 0-2 earlier modifications of the referenced node x reference "
        "statement [injection with host unit none/same/convertible/other dimension and slice, or import form] x later "
        "modification of source or host), local and through a remote source file; non-trivial = the reference gives a "
        "verdict and the program contains a reference.  E1: history = sequence of parse() calls each on top of the "
        "environment returned by the previous successful one; all histories over the program alphabet up to the depth "
        "bound are executed unpruned; state = canonical dump of the newest environment; transition = one parse(); "
        "invariant on every transition: dumps of all earlier environments unchanged + result equals the reference")
ASSUMPTIONS = [
    "reference interpretation of the generator AST (mc/refmodels/dip_gen_c.py): value of the referenced node = last "
    "assigned value converted into its definition unit (exact rationals, own SI factor table); slices = Python/numpy "
    "basic indexing; imports copy value, type, unit, options, condition, format, tags, constant flag",
    "environment dump for the 'unchanged' invariant = every node's name, type, value, unit, raw unit, dimension, "
    "options, condition, format, tags, constant and declared flags + the custom-unit table; sources are not part of "
    "the statement (DIP(env) registers its own source entries in the given environment by design)",
    "not judged: injection across data types, from declared-only nodes, slices/arrays of none, constraints on a none "
    "value, import of a none node, typed re-definition by a sliced injection (observed: slice ignored), slices over "
    "two axes on re-used hosts, into a unit-less host from a dimensional source "
    "modification, imports whose names collide with existing nodes, out-of-range indices, values 0 / '' / none (C14), "
    "modification of int/float/str arrays (C14 defect family, tagged array-modification where unavoidable)",
]

NSHARD = dict(quick=4, thorough=6)
CHAIN_DEPTH = dict(quick=3, thorough=4)


def _scratch():
    return "/dev/shm/dip-C/c17-%d" % os.getpid()      # per process: workers are forked


def _cleanup():
    import shutil
    shutil.rmtree(_scratch(), ignore_errors=True)


# ------------------------------------------------------------------------------------------------ building blocks
def S(t):
    return {"s": t}


def D(name, typ, val, unit=None, dims=None, ind=0):
    return dict(k="def", ind=ind, name=name, type=typ, dims=dims, val=val, unit=unit)


def M(name, val, unit=None, ind=0):
    return dict(k="mod", ind=ind, name=name, val=val, unit=unit)


def REF(path, sl=None, src=None):
    return {"ref": {"src": src, "path": path, "slice": sl}}


def GRP(name, ind=0):
    return dict(k="group", ind=ind, name=name)


def IMP(query, name=None, src=None, ind=0):
    return dict(k="import", ind=ind, name=name, src=src, query=query)


# source nodes: name -> (type, dims, value, unit, property statements, modifications [(val, unit)], later value)
NODES = {
    "f": ("float", None, "1.5", "m", [], [("250", "cm"), ("3.5", None)], ("9.5", None)),
    "i": ("int", None, "4", None, [], [("5", None), ("6", None)], ("9", None)),
    "s": ("str", None, S("Will Smith"), None, [], [(S("Anna Karenina"), None), (S("Tom Sawyer x"), None)],
          (S("Nobody here"), None)),
    "b": ("bool", None, True, None, [], [(False, None), (True, None)], (False, None)),
    "v": ("float", [[3, 3]], ["1.5", "2.5", "4.5"], "cm", [], [], None),
    "m": ("float", [[2, 2], [2, 2]], [["1.5", "2.5"], ["3.5", "4.5"]], "cm", [], [], None),
    "w": ("str", [[3, 3]], [S("ab"), S("cd"), S("ef")], None, [], [], None),
    "o": ("int", None, "2", None,
          [dict(k="opt", ind=4, val="1", unit=None), dict(k="opt", ind=4, val="2", unit=None),
           dict(k="opt", ind=4, val="3", unit=None), dict(k="tags", ind=4, tags=["t1", "t2"])],
          [("3", None), ("1", None)], ("2", None)),
    "e": ("float", None, "20", "J", [dict(k="cond", ind=4, expr=["cmp", "<", ["self"], ["num", "50", "J"]])],
          [("3e8", "erg"), ("25", None)], ("40", None)),
    "t": ("str", None, S("abc"), None, [dict(k="fmt", ind=4, re="^[a-z]+$")], [(S("xyz"), None)], (S("qrs"), None)),
    "c": ("int", None, "5", "s", [dict(k="const", ind=4)], [], None),
    "p": ("float", None, "2.5", None, [], [("3.5", None), ("4.5", None)], ("9.5", None)),
    "u": ("float", [[4, 4]], ["10", "20", "30", "40"], "cm", [], [], None),
    # documented-legal name characters: letters, numbers, underscores, hyphens (dots separate levels)
    "out-dir": ("str", None, S("out"), None, [], [(S("tmp-1"), None), (S("res_2"), None)], (S("late-r"), None)),
    "n_x-2": ("int", None, "3", "m", [], [("400", "cm"), ("5", None)], ("9", None)),
}
# the value "3e8" is decimal text readable by Fraction: 3e8 erg = 30 J


def split_tail():
    """the groups g and g.sub are extended AFTER unrelated nodes: by path notation and by re-opening the group"""
    return [D("lid", "int", "2"), D("g.late", "int", "6"), GRP("g"), D("late2", "float", "7.5", "m", None, 2),
            D("lid2", "str", S("u")), D("g.sub.m", "int", "9"), GRP("gx"), D("b", "int", "1", ind=2),
            D("g.sub.deep.x", "int", "4")]


def tree(names, extra=False):
    """group g with the given nodes; extra adds a sub-group and a look-alike sibling group"""
    out = [GRP("g")]
    for n in names:
        typ, dims, val, unit, props, _, _ = NODES[n]
        out.append(D(n, typ, val, unit, dims, ind=2))
        out += props
    if extra:
        out += [GRP("sub", 2), D("n", "int", "5", ind=4), GRP("gx"), D("a", "int", "8", ind=2)]
    return out


def premods(n, k):
    """k modifications of g.<n> before the reference"""
    return [M("g." + n, v, u) for v, u in NODES[n][5][:k]]


def _cur(n, k):
    """text value (in the definition unit) after k modifications: only used for host follow-up values"""
    return NODES[n][2]


SLICES = {
    "v": [(None, None), ([[1, 1]], None), ([[2, 2]], None), ([[0, 0]], None), ([[1, None]], [[2, 2]]),
          ([[None, 2]], [[2, 2]]), ([[1, 3]], [[2, 2]]), ([[0, 1]], [[1, 1]])],
    "m": [(None, None), ([[None, None], [1, 1]], [[2, 2]]), ([[0, 0], [1, 1]], None), ([[1, 1], [0, 0]], None),
          ([[1, 1]], [[2, 2]]), ([[1, 1], [None, None]], [[2, 2]]), ([[0, 1]], [[1, 1], [2, 2]]),
          ([[None, None], [0, 1]], [[2, 2], [1, 1]])],
    "s": [(None, None), ([[5, None]], None), ([[2, 2]], None), ([[None, 4]], None), ([[2, 6]], None),
          ([[0, 0]], None)],
    "w": [(None, None), ([[1, 1]], None), ([[2, 2]], None), ([[None, 2]], [[2, 2]]), ([[1, None]], [[2, 2]])],
}


def host_dims(n, sl, hd):
    """declared dimension of the host: (exact dims) for array results, None for scalars"""
    if sl is None:
        return NODES[n][1]
    return hd


# ------------------------------------------------------------------------------------------------ E2 families
def fam_inject_def(tier, src=None):
    """h <type> = {?g.x}[slice] [unit]   after 0-2 modifications of g.x; then source or host modified"""
    for n in ("f", "i", "s", "b", "v", "m", "w", "o", "e", "out-dir", "n_x-2"):
        typ, dims, val, unit, props, mods, later = NODES[n]
        companions = [c for c in ("i", "f") if c != n][:1]
        names = [n] + companions if n != "f" else ["i", "f"]
        ks = range(0, min(2, len(mods)) + 1)
        if unit == "m":
            hunits = [("none", None), ("same", "m"), ("convertible", "cm"), ("other-dimension", "s")]
        elif unit == "cm":
            hunits = [("none", None), ("same", "cm"), ("convertible", "m"), ("other-dimension", "s")]
        elif unit == "J":
            hunits = [("none", None), ("convertible", "erg")]
        elif typ in ("int", "float"):
            hunits = [("none", None), ("host-only", "m")]
        else:
            hunits = [("none", None)]
        for k, (utag, hu), (sl, hd) in itertools.product(ks, hunits, SLICES.get(n, [(None, None)])):
            hdims = host_dims(n, sl, hd)
            pre = tree(names) + premods(n, k)
            host = D("h", typ, REF("g." + n, sl, src), hu, hdims)
            base = ["node=" + n, "type=" + typ, "statement=injection-definition", "host-unit=" + utag,
                    "source-modified-before=%d" % k] + (["slice=" + G.render_slice(sl)] if sl else []) \
                + (["array"] if hdims else [])
            yield base + ["after=nothing"], pre, [host], []
            if later is not None:
                yield base + ["after=source-modified"], pre, [host], [M("g." + n, later[0], later[1])]
            if hdims is None and later is not None and sl is None:
                yield base + ["after=host-modified"], pre, [host], [M("h", later[0], None)]
                if hu in ("m", "cm"):
                    yield base + ["after=host-modified-converted"], pre, [host], [M("h", "2", "km")]
            if tier == "thorough" and hdims is None:
                # the injected host is itself injected again (chains of references)
                yield base + ["after=second-injection"], pre, [host], [D("h2", typ, REF("h"), None)]


def fam_inject_mod(tier, src=None):
    """h defined with its own unit, then  h = {?g.x} [unit]"""
    for n in ("f", "i", "s", "b", "o", "e", "v", "out-dir", "n_x-2"):
        typ, dims, val, unit, props, mods, later = NODES[n]
        names = [n, "i"] if n != "i" else ["i", "f"]
        variants = []
        if n == "out-dir":
            variants.append((D("h", "str", S("old")), None, "host-def=plain", "mod-unit=none", None))
            variants.append((D("h", "str", None), None, "host-def=declared", "mod-unit=none", None))
        if n == "n_x-2":
            variants.append((D("h", "int", "7", "cm"), None, "host-def=host-convertible", "mod-unit=adopted", None))
            variants.append((D("h", "int", "7", "m"), "km", "host-def=host-same", "mod-unit=stated-km", None))
        if n == "f":
            for hdef, tag in (("cm", "host-convertible"), ("m", "host-same"), ("s", "host-other-dimension")):
                for hu, utag in ((None, "adopted"), ("km", "stated-km"), ("m", "stated-m"), ("s", "stated-s")):
                    variants.append((D("h", "float", "7", hdef), hu, "host-def=" + tag, "mod-unit=" + utag, None))
            variants.append((D("h", "float", None, "cm"), None, "host-def=declared-cm", "mod-unit=adopted", None))
        elif n == "e":
            for hu, utag in ((None, "adopted"), ("erg", "stated-erg"), ("kJ", "stated-kJ")):
                variants.append((D("h", "float", "7", "erg"), hu, "host-def=host-convertible", "mod-unit=" + utag, None))
        elif n == "v":
            for sl in ([[1, 1]], [[2, 2]]):
                variants.append((D("h", "float", "7", "m"), None, "host-def=host-convertible", "mod-unit=adopted", sl))
                variants.append((D("h", "float", "7", "cm"), "mm", "host-def=host-same", "mod-unit=stated-mm", sl))
        elif n == "i":
            variants.append((D("h", "int", "7"), None, "host-def=plain", "mod-unit=none", None))
            variants.append((D("h", "int", None), None, "host-def=declared", "mod-unit=none", None))
            variants.append((D("h", "int", "7", "m"), None, "host-def=with-unit", "mod-unit=none", None))
            variants.append((D("h", "int", "7", "m"), "km", "host-def=with-unit", "mod-unit=stated-km", None))
        elif n == "o":
            variants.append((D("h", "int", "7"), None, "host-def=plain", "mod-unit=none", None))
        elif n == "s":
            variants.append((D("h", "str", S("old")), None, "host-def=plain", "mod-unit=none", None))
            variants.append((D("h", "str", S("old")), None, "host-def=plain", "mod-unit=none", [[5, None]]))
            variants.append((D("h", "str", None), None, "host-def=declared", "mod-unit=none", [[2, 2]]))
        elif n == "b":
            variants.append((D("h", "bool", True), None, "host-def=plain", "mod-unit=none", None))
            variants.append((D("h", "bool", None), None, "host-def=declared", "mod-unit=none", None))
        ks = range(0, min(2, len(mods)) + 1)
        for k, (hdef, hu, t1, t2, sl) in itertools.product(ks, variants):
            pre = tree(names) + premods(n, k)
            base = ["node=" + n, "type=" + typ, "statement=injection-modification", t1, t2,
                    "source-modified-before=%d" % k] + (["slice=" + G.render_slice(sl)] if sl else [])
            for order in ("host-first", "host-last"):
                # the host is defined before the tree / just before the modification
                if order == "host-first":
                    prog_pre, stm = [hdef] + pre, [M("h", REF("g." + n, sl, src), hu)]
                else:
                    prog_pre, stm = pre + [hdef], [M("h", REF("g." + n, sl, src), hu)]
                yield base + ["order=" + order, "after=nothing"], prog_pre, stm, []
                if later is not None and order == "host-last":
                    yield (base + ["order=" + order, "after=source-modified"], prog_pre, stm,
                           [M("g." + n, later[0], later[1])])
    # documented self-referencing chain: size1/size2/size3
    for k in (0, 1):
        pre = [D("size1", "float", "34", "cm")] + ([M("size1", "0.5", "m")] if k else [])
        stm = [D("size2", "float", REF("size1"), "m"), D("size3", "float", REF("size2")), M("size1", REF("size2"))]
        yield ["statement=injection-modification", "documented-chain", "source-modified-before=%d" % k,
               "type=float"], pre, stm, []


def fam_inject_bad(tier, src=None):
    """requests that select no node or several: the injection must be rejected"""
    names = ["f", "i", "s"]
    # a node defined in a later block of its group is found by its exact path
    for typ, q, hu in (("int", "g.late", None), ("float", "g.late2", "cm"), ("int", "g.sub.m", None)):
        yield (["statement=injection-definition", "layout=split", "query=" + q, "type=" + typ],
               tree(names, extra=True) + split_tail(), [D("h", typ, REF(q, None, src), hu)], [])
    for q, tag in (("g.x", "none"), ("x", "none"), ("g", "none-group-name"), ("g.*", "several"), ("*", "several"),
                   ("g.f.*", "none"), ("f", "none-relative-name")):
        for typ, val in (("float", "7"), ("int", "7"), ("str", S("old"))):
            base = ["statement=injection", "request=" + tag, "query=" + q, "type=" + typ]
            yield base + ["form=definition"], tree(names), [D("h", typ, REF(q, None, src))], []
            yield (base + ["form=modification"], tree(names) + [D("h", typ, val)],
                   [M("h", REF(q, None, src))], [])


IMPORT_FORMS = [
    # (tag, statements builder(query, src))
    ("root", lambda q, s: [IMP(q, None, s, 0)]),
    ("under-group", lambda q, s: [GRP("box"), IMP(q, None, s, 2)]),
    ("named", lambda q, s: [IMP(q, "bag", s, 0)]),
    ("named-under-group", lambda q, s: [GRP("box"), IMP(q, "bag", s, 2)]),
    ("dotted-name", lambda q, s: [IMP(q, "basket.bag", s, 0)]),
    ("hyphen-name", lambda q, s: [IMP(q, "my-bag_2", s, 0)]),
]
IMP_NAMES = ["f", "i", "s", "b", "v", "o", "e", "t", "c", "out-dir", "n_x-2"]


def _imp_prefix(form):
    return {"root": "", "under-group": "box.", "named": "bag.", "named-under-group": "box.bag.",
            "dotted-name": "basket.bag.", "hyphen-name": "my-bag_2."}[form]


def fam_import(tier, src=None):
    """imports of children / single node / everything, with modifications before and after"""
    queries = [("g.*", "children"), ("g.f", "single"), ("g.o", "single-with-options"), ("g.sub.*", "sub-children"),
               ("g.sub.n", "single-deep"), ("*", "all"), ("g.v", "single-array"), ("g.e", "single-with-condition"),
               ("g.out-dir", "single-hyphen"), ("g.n_x-2", "single-hyphen-underscore")]
    pre_variants = [("0", []), ("1", premods("f", 1) + premods("o", 1) + premods("s", 1) + premods("e", 1)),
                    ("2", premods("f", 2) + premods("i", 2) + premods("b", 1) + premods("e", 2))]
    # layout "split": groups extended later, after unrelated nodes (all descendants must still be found)
    for (q, qtag), (form, build), (ktag, pm) in itertools.product(
            [("g.*", "children"), ("g.sub.*", "sub-children"), ("gx.*", "sibling-children"), ("*", "all"),
             ("g.sub.deep.*", "deep-children"), ("g.late2", "single-late")], IMPORT_FORMS, pre_variants[:2]):
        pre = tree(IMP_NAMES, extra=True) + split_tail() + pm
        stm = build(q, src)
        px = _imp_prefix(form)
        base = ["statement=import", "query=" + qtag, "form=" + form, "source-modified-before=" + ktag,
                "layout=split"]
        yield base + ["after=nothing"], pre, stm, []
        if qtag == "children":
            yield base + ["after=import-modified", "target=late"], pre, stm, [M(px + "late", "8")]
            yield base + ["after=original-modified", "target=late2"], pre, stm, [M("g.late2", "9.5")]
            yield (base + ["after=extended-after-import"], pre, stm,
                   [D("g.later", "int", "1"), IMP("g.*", "again", src)])
    for (q, qtag), (form, build), (ktag, pm) in itertools.product(queries, IMPORT_FORMS, pre_variants):
        pre = tree(IMP_NAMES, extra=True) + pm
        stm = build(q, src)
        px = _imp_prefix(form)
        base = ["statement=import", "query=" + qtag, "form=" + form, "source-modified-before=" + ktag]
        yield base + ["after=nothing"], pre, stm, []
        # name of one imported scalar node, to be modified afterwards
        if qtag == "children":
            tgt = [("f", px + "f"), ("o", px + "o"), ("e", px + "e"), ("t", px + "t"), ("c", px + "c")]
        elif qtag == "single":
            tgt = [("f", px + "f")]
        elif qtag == "single-with-options":
            tgt = [("o", px + "o")]
        elif qtag == "single-with-condition":
            tgt = [("e", px + "e")]
        elif qtag == "all":
            tgt = [("f", px + "g.f"), ("o", px + "g.o")]
        else:
            tgt = []
        for n, path in tgt:
            if ktag == "2" and tier != "thorough":
                continue
            if n == "t":
                yield base + ["after=import-modified", "target=t"], pre, stm, [M(path, S("klm"), None)]
                yield (base + ["after=import-modified-violating-format", "target=t"], pre, stm,
                       [M(path, S("KLM"), None)])
                yield base + ["after=original-modified", "target=t"], pre, stm, [M("g.t", S("qrs"), None)]
                continue
            if n == "c":
                yield base + ["after=import-modified-constant", "target=c"], pre, stm, [M(path, "6", None)]
                continue
            yield base + ["after=import-modified", "target=" + n], pre, stm, [M(path, "3", None)]
            if n == "f":
                yield base + ["after=import-modified-converted", "target=f"], pre, stm, [M(path, "2", "km")]
                yield base + ["after=import-modified-other-dimension", "target=f"], pre, stm, [M(path, "2", "s")]
            if n == "o":
                yield base + ["after=import-modified-violating-option", "target=o"], pre, stm, [M(path, "7", None)]
            if n == "e":
                yield (base + ["after=import-modified-violating-condition", "target=e"], pre, stm,
                       [M(path, "60", None)])
            yield (base + ["after=original-modified", "target=" + n], pre, stm,
                   [M("g." + n, NODES[n][6][0], NODES[n][6][1])])
            yield (base + ["after=both-modified", "target=" + n], pre, stm,
                   [M(path, "3", None), M("g." + n, NODES[n][6][0], NODES[n][6][1])])
            if form != "root":
                yield (base + ["after=injection-from-import", "target=" + n], pre, stm,
                       [M(path, "3", None), D("k", NODES[n][0], REF(path), None),
                        D("k0", NODES[n][0], REF("g." + n, None, src), None)])


def fam_inject_twice(tier, src=None):
    """the SAME path is injected several times with modifications of the referenced node in between and NO new node
    in between (all hosts exist already and are modified): every injection delivers the value current at its place"""
    for n in ("f", "i", "s", "b", "p", "out-dir", "e"):
        typ, dims, val, unit, props, mods, later = NODES[n]
        hu = {"m": "cm", "J": "erg"}.get(unit, unit)
        hosts = [D("left", typ, later[0], hu), D("right", typ, later[0], unit), D("third", typ, None, unit)]
        for order in ("hosts-first", "hosts-last"):
            pre = (hosts + tree([n, "i" if n != "i" else "f"])) if order == "hosts-first" else \
                (tree([n, "i" if n != "i" else "f"]) + hosts)
            ref = REF("g." + n, None, src)
            m1 = M("g." + n, mods[0][0], mods[0][1])
            m2 = M("g." + n, mods[1][0], mods[1][1]) if len(mods) > 1 else M("g." + n, later[0], later[1])
            base = ["node=" + n, "type=" + typ, "statement=injection-modification", "same-path-twice",
                    "order=" + order]
            yield base + ["seq=inject-modify-inject"], pre, [M("left", ref), m1, M("right", ref)], []
            yield base + ["seq=inject-modify-inject-same-host"], pre, [M("left", ref), m1, M("left", ref)], []
            yield (base + ["seq=three-injections"], pre,
                   [M("left", ref), m1, M("right", ref), m2, M("third", ref), M("left", ref)], [])
            yield base + ["seq=inject-inject-modify-inject"], pre, [M("left", ref), M("right", ref), m1, M("third", ref)], []
            yield (base + ["seq=host-modified-between"], pre,
                   [M("left", ref), M("right", later[0]), m1, M("right", ref), M("left", ref)], [])
            yield (base + ["seq=emptied-between"], pre, [M("left", ref), M("g." + n, G.NONE), M("right", ref)], []) \
                if not props else (base + ["seq=inject-only"], pre, [M("left", ref), M("right", ref)], [])
            if unit:
                yield (base + ["seq=inject-modify-inject-stated-unit"], pre,
                       [M("left", ref, unit), m1, M("right", ref, hu), m2, M("left", ref)], [])


def fam_inject_empty_text(tier, src=None):
    """injections that deliver the empty string (source is '', was set to '', or a text slice beyond the end): a host
    that already has a text is MODIFIED to '' like by any other value"""
    trees = [("defined-empty", [GRP("g"), D("s", "str", S(""), ind=2), D("i", "int", "4", ind=2)], None),
             ("set-empty", tree(["s", "i"]) + [M("g.s", S(""))], None),
             ("refilled", tree(["s", "i"]) + [M("g.s", S("")), M("g.s", S("again"))], None),
             ("slice-beyond-end", tree(["s", "i"]), [[20, None]]),
             ("slice-at-end", tree(["s", "i"]), [[10, None]]),
             ("slice-empty-range", tree(["s", "i"]), [[3, 3 + 0]]) if False else
             ("slice-before-start", tree(["s", "i"]), [[None, 0]])]
    for ttag, tr, sl in trees:
        ref = REF("g.s", sl, src)
        base = ["node=s", "type=str", "empty-text=" + ttag] + (["slice=" + G.render_slice(sl)] if sl else [])
        b = base + ["statement=injection-modification"]
        for htag, hdef in (("plain", D("h", "str", S("old"))), ("declared", D("h", "str", None)),
                           ("defined-empty", D("h", "str", S("")))):
            yield b + ["host-def=" + htag, "after=nothing"], tr + [hdef], [M("h", ref)], []
            yield b + ["host-def=" + htag, "after=host-modified"], tr + [hdef], [M("h", ref)], [M("h", S("new"))]
            yield (b + ["host-def=" + htag, "after=second-injection"], tr + [hdef], [M("h", ref)],
                   [D("k", "str", REF("h"))])
        b = base + ["statement=injection-definition"]
        yield b + ["after=nothing"], tr, [D("h", "str", ref)], []
        yield b + ["after=host-modified"], tr, [D("h", "str", ref)], [M("h", S("new"))]


def fam_inject_precision(tier, src=None):
    """sources declared float32 / float64 / float128 with 9-10 significant digits: the injected number is the node's
    value (a declared precision is export information, the value is not rounded to it)"""
    for tname, txt in itertools.product(("float32", "float64", "float128", "float"),
                                        ("1.23456789", "1234567.891", "0.000123456789", "16777217")):
        src_def = dict(D("x", "float", txt, "m", ind=2), tname=tname)
        tr = [GRP("g"), src_def, D("i", "int", "4", ind=2)]
        for k in (0, 1):
            pre = tr + ([M("g.x", "2.718281828", "m")] if k else [])
            base = ["node=x", "type=float", "precision=" + tname, "digits=" + txt, "source-modified-before=%d" % k]
            for htn, hu in itertools.product(("float", "float32", "float128"), (None, "cm")):
                host = dict(D("h", "float", REF("g.x", None, src), hu), tname=htn)
                yield base + ["statement=injection-definition", "host-type=" + htn, "host-unit=" + str(hu)], pre, [host], []
            yield (base + ["statement=injection-modification"], pre + [dict(D("h", "float", "7", "cm"), tname="float32")],
                   [M("h", REF("g.x", None, src))], [])
            yield (base + ["statement=import"], pre, [IMP("g.*", "bag", src)], [D("k", "float", REF("bag.x"))])
        arr = dict(D("xs", "float", [txt, "2.5"], "m", [[2, 2]], 2), tname=tname)
        yield (["node=xs", "type=float", "precision=" + tname, "digits=" + txt, "statement=injection-definition", "array"],
               [GRP("g"), arr], [D("h", "float", REF("g.xs", None, src), None, [[2, 2]]),
                                 D("k", "float", REF("g.xs", [[0, 0]], src))], [])


def fam_import_extend(tier, src=None):
    """property lines directly below an import that re-creates ONE node extend the imported copy only: the referenced
    node (local or in the remote source), earlier and later imports of it keep their own constraints"""
    # node -> (extra property lines, value only the extended copy accepts, value both accept)
    ext = {
        "o": ([dict(k="opt", val="7", unit=None), dict(k="opts", vals=["8", "9"], unit=None),
               dict(k="tags", tags=["x1"])], "7", "3"),
        "e": ([dict(k="opt", val="25", unit="J"), dict(k="opt", val="3e8", unit="erg"), dict(k="tags", tags=["x2"])],
              None, "25"),
        "t": ([dict(k="opt", val=S("klm"), unit=None), dict(k="opt", val=S("abc"), unit=None),
               dict(k="tags", tags=["x3", "x4"])], None, S("klm")),
        "f": ([dict(k="tags", tags=["x5"]), dict(k="opt", val="1.5", unit="m"), dict(k="opt", val="250", unit="cm")],
              None, "2.5"),
    }
    for n, (lines, only_copy, both) in ext.items():
        for (form, build), k in itertools.product(IMPORT_FORMS, (0, 1)):
            pre = tree(IMP_NAMES, extra=True) + premods(n, k)
            imp = build("g." + n, src)
            props = [dict(p, ind=imp[-1]["ind"] + 2) for p in lines]
            px = _imp_prefix(form)
            base = ["statement=import", "query=single", "node=" + n, "form=" + form, "import-extended",
                    "source-modified-before=%d" % k]
            yield base + ["after=nothing"], pre, imp + props, []
            for sub in (1, 2):
                yield base + ["after=nothing", "lines=%d" % sub], pre, imp + props[:sub], []
            yield base + ["after=second-import"], pre, imp + props, [IMP("g." + n, "again", src)]
            yield (base + ["after=second-import-extended"], pre, imp + props,
                   [IMP("g." + n, "again", src), dict(k="tags", ind=2, tags=["y"])])
            yield (base + ["after=first-import-before"], pre, [IMP("g." + n, "before", src)] + imp + props, [])
            yield base + ["after=copy-modified"], pre, imp + props, [M(px + n, both)]
            yield base + ["after=original-modified"], pre, imp + props, [M("g." + n, both)]
            if only_copy is not None:
                yield base + ["after=copy-takes-new-option"], pre, imp + props, [M(px + n, only_copy)]
                yield base + ["after=original-takes-copy-option"], pre, imp + props, [M("g." + n, only_copy)]
                yield (base + ["after=second-import-takes-copy-option"], pre, imp + props,
                       [IMP("g." + n, "again", src), M("again." + n, only_copy)])
            yield (base + ["after=injection-from-both"], pre, imp + props,
                   [D("k1", NODES[n][0], REF(px + n)), D("k2", NODES[n][0], REF("g." + n, None, src))])


def fam_import_empty(tier, src=None):
    """imports that select nothing: rejected, or nothing is added and the environment stays readable"""
    for (q, qtag), (form, build) in itertools.product(
            [("q.*", "unknown-group"), ("g.zz", "unknown-node"), ("g.f.*", "leaf-children"), ("gy.*", "unknown-prefix")],
            IMPORT_FORMS):
        base = ["statement=import", "request=none", "query=" + qtag, "form=" + form]
        pre = tree(["f", "i"], extra=True)
        yield base + ["after=nothing"], pre, build(q, src), []
        yield base + ["after=definition"], pre, build(q, src), [D("k", "int", "3")]
        yield base + ["after=modification"], pre, build(q, src), [M("g.i", "7")]


# ------------------------------------------------------------------------------------------------ placements
def _ren_src(path, splace):
    if not path.startswith("g."):
        return path
    if splace == "hyphen":
        return "my-g_1." + path[2:]
    return path[2:] if splace == "root" else "g.sub." + path[2:]


def _ren_val(val, fn):
    if isinstance(val, dict) and "ref" in val:
        r = dict(val["ref"])
        r["path"] = fn(r["path"])
        return {"ref": r}
    return val


def reloc_src(prog, splace):
    """move the source tree: 'g' (below group g), 'root' (no group), 'nested' (below g.sub)"""
    if splace == "g":
        return prog
    out, body = [], False
    for st in prog:
        st = dict(st)
        if st["k"] == "group" and st["name"] == "g" and st["ind"] == 0:
            body = True
            if splace == "nested":
                out += [st, GRP("sub", 2)]
            elif splace == "hyphen":
                out.append(GRP("my-g_1"))
            continue
        if body and st.get("ind", 0) >= 2:
            st["ind"] += 2 if splace == "nested" else (0 if splace == "hyphen" else -2)
        else:
            body = False
            if st["k"] in ("mod", "def"):
                st["name"] = _ren_src(st["name"], splace)
        if st["k"] in ("mod", "def"):
            st["val"] = _ren_val(st["val"], lambda q: _ren_src(q, splace))
        if st["k"] == "source":
            st["prog"] = reloc_src(st["prog"], splace)
        out.append(st)
    return out


def reloc_host(prog, hplace):
    """move the host h: 'root', 'in-group' (indented below group box), 'dotted' (defined as box.h)"""
    if hplace == "root":
        return prog
    out, first = [], True
    ren = lambda q: "box.h" if q == "h" else q
    for st in prog:
        st = dict(st)
        if st["k"] in ("mod", "def"):
            st["val"] = _ren_val(st["val"], ren)
            if st["name"] == "h":
                if st["k"] == "def" and first and hplace == "in-group":
                    out.append(GRP("box"))
                    st["ind"] = 2
                else:
                    st["name"] = "box.h"
                first = False
        out.append(st)
    return out


PLACES = dict(quick=[("g", "root"), ("root", "in-group"), ("nested", "dotted"), ("hyphen", "root")],
              thorough=[(a, b) for a in ("g", "root", "nested", "hyphen") for b in ("root", "in-group", "dotted")])
PLACED_FAMILIES = ("inject_def", "inject_mod")


def _placed(fam, tier, tags, build):
    """build(splace, hplace) -> program; yields (tags, program) for every placement of the tier"""
    if fam not in PLACED_FAMILIES:
        yield tags, build("g", "root")
        return
    for sp, hp in PLACES[tier]:
        if (sp, hp) != ("g", "root") and tier != "thorough" and \
                not any(t in ("after=nothing", "after=source-modified") for t in tags):
            continue
        yield tags + ["source-place=" + sp, "host-place=" + hp], build(sp, hp)


def _fresh(typ, shp, k=0):
    """a new literal of the given shape (None = scalar)"""
    def one(i):
        if typ == "float":
            return "%d.5" % (7 + i + k)
        if typ == "int":
            return str(7 + i + k)
        if typ == "str":
            return S("zz%d" % (i + k))
        return (i + k) % 2 == 0
    if not shp:
        return one(0)
    if len(shp) == 1:
        return [one(i) for i in range(shp[0])]
    return [[one(r * shp[1] + c) for c in range(shp[1])] for r in range(shp[0])]


REUSE_SLICES = {
    # single-axis slices only (slices over two axes whose first part is a range are a separate, older quirk)
    "u": [(None, [[4, 4]]), ([[1, 3]], [[1, None]]), ([[2, None]], [[None, 3]]), ([[1, 3]], [[2, 2]]),
          ([[3, 3]], None), ([[1, 1]], None), ([[None, 3]], [[3, 3]]), ([[1, 4]], [[1, 4]]), ([[0, 1]], [[1, 1]])],
    "v": [([[1, None]], [[2, 2]]), ([[2, 2]], None), ([[1, 3]], [[1, None]])],
    "m": [([[1, 1]], [[2, 2]]), ([[0, 1]], [[1, 1], [2, 2]]), ([[1, None]], [[1, None], [2, 2]])],
    "w": [([[1, 1]], None), ([[1, None]], [[2, 2]]), ([[2, 2]], None), ([[1, 3]], [[1, None]])],
}


def fam_reuse_sliced_host(tier, src=None):
    """a node DEFINED by a (single-axis) sliced injection is afterwards imported, modified, injected or sliced
    again: it must behave like any node holding that value (the slice belongs to the injection, not to the node)"""
    for n in ("u", "v", "m", "w"):
        typ, dims, val, unit, props, mods, later = NODES[n]
        hunits = [("none", None)] + ([("convertible", "mm")] if unit else [])
        for (sl, hd), (utag, hu) in itertools.product(REUSE_SLICES[n], hunits):
            pre = tree([n, "i"])
            host = [GRP("hg"), D("h", typ, REF("g." + n, sl, src), hu, hd, ind=2)]
            res = G.apply_slice(G.leaf(val, typ), sl)
            shp = G.shape(res) if isinstance(res, list) else None
            new, new2 = _fresh(typ, shp), _fresh(typ, shp, 3)
            base = ["node=" + n, "type=" + typ, "statement=injection-definition", "host-unit=" + utag,
                    "host-reused"] + (["slice=" + G.render_slice(sl)] if sl else []) + (["array"] if hd else [])
            yield base + ["after=nothing"], pre, host, []
            yield base + ["after=host-imported-children"], pre, host, [IMP("hg.*", "cp")]
            yield base + ["after=host-imported-single"], pre, host, [GRP("box"), IMP("hg.h", None, None, 2)]
            yield (base + ["after=host-imported-twice"], pre, host,
                   [IMP("hg.*", "cp"), IMP("cp.*", "cp2"), IMP("hg.h", "one")])
            yield (base + ["after=import-then-injection"], pre, host,
                   [IMP("hg.*", "cp"), D("k", typ, REF("cp.h"), None, hd)])
            yield (base + ["after=import-modified"], pre, host, [IMP("hg.*", "cp"), M("cp.h", new)])
            yield base + ["after=host-modified"], pre, host, [M("hg.h", new)]
            yield base + ["after=host-modified-twice"], pre, host, [M("hg.h", new), M("hg.h", new2)]
            yield (base + ["after=host-modified-then-injected"], pre, host,
                   [M("hg.h", new), D("k", typ, REF("hg.h"), None, hd)])
            yield (base + ["after=host-modified-then-imported"], pre, host, [M("hg.h", new), IMP("hg.*", "cp")])
            yield base + ["after=host-injected"], pre, host, [D("k", typ, REF("hg.h"), None, hd)]
            if shp and len(shp) == 1 and shp[0] >= 2:
                yield (base + ["after=host-sliced-again"], pre, host,
                       [D("k", typ, REF("hg.h", [[1, 1]]), None, None), D("k2", typ, REF("hg.h", [[0, 1]]), None,
                                                                         [[1, 1]])])
            if hu:
                yield base + ["after=host-modified-converted"], pre, host, [M("hg.h", new, "cm")]


def fam_inject_none(tier, src=None):
    """the referenced node was emptied by `= none` (or defined as none) before the injection: the host receives the
    current value, i.e. none (or the value assigned after the emptying)"""
    for n in ("f", "i", "s", "b", "p"):
        typ, dims, val, unit, props, mods, later = NODES[n]
        comp = "i" if n != "i" else "f"
        seqs = [("emptied", tree([n, comp]), [M("g." + n, G.NONE)]),
                ("modified-then-emptied", tree([n, comp]), [M("g." + n, mods[0][0], mods[0][1]), M("g." + n, G.NONE)]),
                ("emptied-then-refilled", tree([n, comp]), [M("g." + n, G.NONE), M("g." + n, mods[0][0], mods[0][1])]),
                ("emptied-twice", tree([n, comp]), [M("g." + n, G.NONE), M("g." + n, mods[1][0], mods[1][1]),
                                                    M("g." + n, G.NONE)])]
        if unit is None:
            seqs.append(("defined-none", [GRP("g"), D(n, typ, G.NONE, None, ind=2), D(comp, *_plain_def(comp))], []))
        if unit == "m":
            hunits = [("none", None), ("same", "m"), ("convertible", "cm"), ("other-dimension", "s")]
        elif typ in ("int", "float"):
            hunits = [("none", None), ("host-only", "m")]
        else:
            hunits = [("none", None)]
        okval = NODES[n][6][0]
        for (qtag, tr, pm) in seqs:
            pre = tr + pm
            base = ["node=" + n, "type=" + typ, "source-emptied=" + qtag]
            for utag, hu in hunits:
                b = base + ["statement=injection-definition", "host-unit=" + utag]
                host = [D("h", typ, REF("g." + n, None, src), hu)]
                yield b + ["after=nothing"], pre, host, []
                yield b + ["after=host-modified"], pre, host, [M("h", okval)]
                yield b + ["after=source-modified"], pre, host, [M("g." + n, later[0], later[1])]
                yield b + ["after=second-injection"], pre, host, [D("h2", typ, REF("h"))]
            # injection in a modification
            hdefs = [("plain", D("h", typ, okval, unit)), ("declared", D("h", typ, None, unit))]
            if unit == "m":
                hdefs += [("convertible", D("h", typ, okval, "cm"))]
            for (dtag, hdef), hu in itertools.product(hdefs, [None] + (["km"] if unit == "m" else [])):
                b = base + ["statement=injection-modification", "host-def=" + dtag,
                            "mod-unit=" + ("adopted" if hu is None else "stated-" + hu)]
                yield b + ["after=nothing"], pre + [hdef], [M("h", REF("g." + n, None, src), hu)], []
                yield (b + ["after=host-modified"], pre + [hdef], [M("h", REF("g." + n, None, src), hu)],
                       [M("h", okval)])


def _plain_def(n):
    typ, dims, val, unit, props, mods, later = NODES[n]
    return typ, val, unit, dims, 2


LOCAL_FAMILIES = dict(inject_def=fam_inject_def, inject_mod=fam_inject_mod, inject_bad=fam_inject_bad,
                      imports=fam_import, import_empty=fam_import_empty, reuse_sliced_host=fam_reuse_sliced_host,
                      inject_none=fam_inject_none, import_extend=fam_import_extend, inject_twice=fam_inject_twice,
                      inject_empty_text=fam_inject_empty_text, inject_precision=fam_inject_precision)


def remote_cases(fam, tier, api):
    """the same statements against a remote source: the tree (+ its modifications) lives in a file named s"""
    for tags, pre, stm, after in LOCAL_FAMILIES[fam](tier, src="s"):
        # statements of `pre` that build or modify the tree go to the remote file, host definitions stay local
        remote = [st for st in pre if not (st["k"] == "def" and st["name"] in ("h", "size1"))]
        local = [st for st in pre if st["k"] == "def" and st["name"] in ("h",)]
        if "documented-chain" in tags:
            continue
        aft = []
        skip = False
        for st in after:
            if st["k"] == "mod" and st["name"].startswith("g."):
                skip = True            # the remote tree cannot be modified from the local file
            if st["k"] == "def" and isinstance(st["val"], dict) and "ref" in st["val"] \
                    and st["val"]["ref"]["src"] is None and st["val"]["ref"]["path"].startswith("g."):
                skip = True
            aft.append(st)
        if skip:
            continue

        def build(sp, hp, remote=remote, rest=local + stm + aft):
            return [dict(k="source", name="s", prog=reloc_src(remote, sp))] + reloc_host(reloc_src(rest, sp), hp)
        for t, prog in _placed(fam, tier, tags + ["remote", "api=add_source" if api else "api=$source"], build):
            yield t, prog


def local_cases(fam, tier):
    for tags, pre, stm, after in LOCAL_FAMILIES[fam](tier):
        def build(sp, hp, prog=pre + stm + after):
            return reloc_host(reloc_src(prog, sp), hp)
        for t, prog in _placed(fam, tier, tags + ["local"], build):
            yield t, prog


def fam_remote_misc(tier):
    """unknown source names, and independence of the remote tree from modifications of imported nodes"""
    remote = tree(["f", "i", "o"], extra=True)
    src = dict(k="source", name="s", prog=remote)
    yield ["statement=injection", "remote", "unknown-source"], [src, D("h", "float", REF("g.f", None, "t"))]
    yield ["statement=import", "remote", "unknown-source"], [src, IMP("g.*", "bag", "t")]
    for form, build in IMPORT_FORMS:
        px = _imp_prefix(form)
        yield (["statement=import", "remote", "form=" + form, "after=import-modified-then-injected-again"],
               [src] + build("g.*", "s") + [M(px + "f", "9", "m"), M(px + "o", "3"),
                                            D("k", "float", REF("g.f", None, "s")), D("k2", "int", REF("g.o", None, "s"))])
        yield (["statement=import", "remote", "form=" + form, "after=second-import"],
               [src] + build("g.*", "s") + [M(px + "f", "9", "m"), IMP("g.*", "again", "s")])
    # a remote file that itself modifies and injects before it is referenced
    remote2 = tree(["f", "i"]) + [M("g.f", "250", "cm"), D("r", "float", REF("g.f"), None)]
    src2 = dict(k="source", name="s", prog=remote2)
    yield ["statement=injection", "remote", "remote-file-with-references"], \
        [src2, D("h", "float", REF("r", None, "s")), D("h2", "float", REF("g.f", None, "s"), "cm")]
    yield ["statement=import", "remote", "remote-file-with-references"], [src2, IMP("*", "bag", "s")]


# ------------------------------------------------------------------------------------------------ judging (E2)
def _stmt(tags):
    for t in tags:
        if t.startswith("statement="):
            return t[10:]
    return "?"


def _data(env):
    from scinumtools.dip.settings import Format
    try:
        return env.data(Format.TUPLE)
    except Exception as e:
        return "env.data() raises " + type(e).__name__


def _refdata(renv):
    return "{" + ", ".join("%s: %s%s" % (p, G.show(n.value), " " + n.unit if n.unit else "")
                           for p, n in renv.nodes.items()) + "}"


def _diffclass(diff):
    if diff.startswith("env.data()"):
        return "data-unreadable"
    if diff.startswith("node names"):
        return "names"
    rest = diff.split(": ", 1)[1] if ": " in diff else diff
    return "options" if rest[0].isdigit() else rest.split(" ")[0]


def judge(prog, tags, api=False):
    ref = G.interpret(prog)
    out, text = G.execute(prog, _scratch(), api_sources=api)
    case = dict(prog=prog, tags=tags, api=api, text=text)
    sub = "references/" + _stmt(tags)
    if ref[0] == "undemanded":
        return "undemanded", None, text
    if ref[0] == "reject":
        if out[0] == "ok":
            return "reject", failure(sub, case, "parse() raises (%s)" % ref[1], "accepted: %r" % (_data(out[1]),),
                                     tags=tags, behaviour="accepted-invalid:" + ref[1].split(" ")[0]), text
        return "reject", None, text
    if ref[0] == "ok-or-reject" and out[0] == "err":
        return "empty-import-rejected", None, text
    if out[0] == "err":
        return "accept", failure(sub, case, "accepted with " + _refdata(ref[1]), "%s: %s" % (out[1], out[2]),
                                 tags=tags, behaviour="rejected-valid:raises:" + out[1]), text
    diff = G.compare_env(out[1], ref[1])
    if diff:
        return "accept", failure(sub, case, _refdata(ref[1]), diff, tags=tags,
                                 behaviour="wrong-environment:" + _diffclass(diff)), text
    # remote sources must be left as the reference says they are
    for name, renv in ref[1].sources.items():
        try:
            srcnodes = out[1].sources[name].nodes
        except Exception:
            break        # how a remote source is stored is not part of the statement: nothing to compare

        class _E:
            pass
        fake = _E()
        fake.nodes = srcnodes
        fake.data = lambda fmt, _n=srcnodes: _source_data(_n, fmt)
        d2 = G.compare_env(fake, renv)
        if d2:
            return "accept", failure(sub, case, "remote source unchanged: " + _refdata(renv), d2, tags=tags,
                                     behaviour="remote-source-changed:" + _diffclass(d2)), text
    return ("empty-import-ignored" if ref[0] == "ok-or-reject" else "accept"), None, text


def _source_data(nodelist, fmt):
    from scinumtools.dip.environment import Environment
    e = Environment()
    e.nodes = nodelist
    return e.data(fmt)


# ------------------------------------------------------------------------------------------------ E1: chaining
def chain_alphabet():
    """programs of the chaining alphabet: name -> statements"""
    A = {}
    A["define"] = [GRP("g"), D("f", "float", "1.5", "m", ind=2), D("i", "int", "4", ind=2),
                   D("s", "str", S("Will Smith"), ind=2), D("u", "float", ["10", "20", "30", "40"], "cm", [[4, 4]], 2)]
    A["define-constrained"] = [D("o", "int", "2"), dict(k="opt", ind=2, val="1", unit=None),
                               dict(k="opt", ind=2, val="2", unit=None), dict(k="opt", ind=2, val="3", unit=None),
                               dict(k="tags", ind=2, tags=["t1"]),
                               D("c", "float", "20", "J"),
                               dict(k="cond", ind=2, expr=["cmp", "<", ["self"], ["num", "50", "J"]])]
    A["modify"] = [M("g.f", "250", "cm"), M("g.i", "6")]
    A["modify-constrained"] = [M("o", "3"), M("c", "3e8", "erg")]
    A["inject"] = [D("h", "float", REF("g.f"), "cm"), D("t", "str", REF("g.s", [[5, None]])),
                   GRP("hg"), D("part", "float", REF("g.u", [[1, 3]]), None, [[1, None]], 2)]
    A["extend-group"] = [D("lid0", "int", "2"), D("g.late", "int", "6"), D("g.out-dir", "str", S("out")),
                         D("t2", "str", REF("g.out-dir"))]
    # documentation parse on top of the current environment: it returns no environment, and must leave the one
    # it was given as it was (a later normal parse still rejects dangling references)
    A["docs:define"] = A["define"]
    A["docs:more"] = [GRP("dd"), D("x", "int", "1", ind=2), D("y", "float", "2", "m", ind=2)]
    A["import-sliced"] = [IMP("hg.*", "cp"), M("hg.part", ["7.5", "8.5"]), M("g.i", G.NONE), D("e1", "int", REF("g.i"))]
    A["inject-modify"] = [M("g.i", REF("o")), M("g.f", REF("c"), "mm")]
    A["import"] = [IMP("g.*", "bag")]
    A["unit"] = [dict(k="unit", name="len", val="2", unit="m"), D("w", "float", "3", "[len]")]
    A["use-unit"] = [M("g.f", "4", "[len]")]
    A["fail-option"] = [M("g.i", "8"), M("o", "7")]
    A["fail-late"] = [D("x1", "int", "1"), M("g.f", "9", "km"), M("g.f", "2", "s")]
    A["fail-inject"] = [D("x2", "float", "3", "m"), M("x2", REF("nowhere"))]
    return A


CHAIN_QUICK = ["define", "define-constrained", "modify", "modify-constrained", "inject", "inject-modify", "import",
               "import-sliced", "extend-group", "docs:define", "docs:more", "unit", "use-unit", "fail-option", "fail-late",
               "fail-inject"]


def run_history(hist, sh=None):
    """Execute one chaining history on the real library.  -> failure record or None.

    Every parse() is executed on top of the environment of the last successful step; after each step the dumps of ALL
    earlier environments are compared with the dumps taken when they were returned.
    """
    A = chain_alphabet()
    envs = []            # (step index, real env, dump at creation, reference env)
    cur, rcur = None, None
    demanded = True
    bad = None
    bad_mode = None      # only the mode flag of an earlier environment changed: reported when nothing else is wrong
    for k, name in enumerate(hist):
        prog = A[name]
        case = dict(history=list(hist[:k + 1]))
        if name.startswith("docs:"):
            out, text = G.execute(prog, _scratch(), base_env=cur, name="step%d" % k, docs=True)
            for (j, e, dump0, _r) in envs:
                d = G.observe_env(e)
                if d[:2] != dump0[:2] and bad is None:
                    bad = failure("chaining/base-unchanged", case, _short(dump0), _short(d),
                                  tags=["step=%s" % name, "outcome=" + out[0], "base-step=%s" % hist[j]],
                                  behaviour="base-environment-changed:" + _dumpdiff(dump0, d))
                elif d != dump0 and bad_mode is None:
                    bad_mode = failure("chaining/base-unchanged", case, _short(dump0), _short(d),
                                       tags=["step=%s" % name, "outcome=" + out[0], "base-step=%s" % hist[j]],
                                       behaviour="base-environment-changed:" + _dumpdiff(dump0, d))
            if sh is not None:
                sh.transitions += 1
                sh.count("chain:docs-step")
            continue          # no new environment: the next step continues from the same one
        ref = G.interpret(prog, base=rcur) if demanded else ("undemanded", "")
        out, text = G.execute(prog, _scratch(), base_env=cur, name="step%d" % k)
        # invariant 1: all earlier environments unchanged
        for (j, e, dump0, _r) in envs:
            d = G.observe_env(e)
            if d[:2] != dump0[:2] and bad is None:
                bad = failure("chaining/base-unchanged", case, _short(dump0), _short(d),
                              tags=["step=%s" % name, "outcome=" + out[0], "base-step=%s" % hist[j]],
                              behaviour="base-environment-changed:" + _dumpdiff(dump0, d))
            elif d != dump0 and bad_mode is None:
                bad_mode = failure("chaining/base-unchanged", case, _short(dump0), _short(d),
                                   tags=["step=%s" % name, "outcome=" + out[0], "base-step=%s" % hist[j]],
                                   behaviour="base-environment-changed:" + _dumpdiff(dump0, d))
        if sh is not None:
            sh.transitions += 1
        # invariant 2: the result equals the reference interpretation of the history
        if ref[0] == "undemanded":
            if out[0] == "ok":
                demanded = False       # accepted something the reference does not judge: stop comparing results
        elif ref[0] == "reject":
            if out[0] == "ok" and bad is None:
                bad = failure("chaining/result", case, "parse() raises (%s)" % ref[1],
                              "accepted: %r" % (_data(out[1]),), tags=["step=%s" % name],
                              behaviour="accepted-invalid:" + ref[1].split(" ")[0])
        elif ref[0] in ("ok", "ok-or-reject"):
            if out[0] == "err":
                if ref[0] == "ok" and bad is None:
                    bad = failure("chaining/result", case, "accepted with " + _refdata(ref[1]),
                                  "%s: %s" % (out[1], out[2]), tags=["step=%s" % name],
                                  behaviour="rejected-valid:raises:" + out[1])
            else:
                diff = G.compare_env(out[1], ref[1])
                if diff and bad is None:
                    bad = failure("chaining/result", case, _refdata(ref[1]), diff, tags=["step=%s" % name],
                                  behaviour="wrong-environment:" + _diffclass(diff))
        if out[0] == "ok":
            cur = out[1]
            envs.append((k, cur, G.observe_env(cur), ref[1] if ref[0] in ("ok", "ok-or-reject") else None))
            if ref[0] in ("ok", "ok-or-reject"):
                rcur = ref[1]
            else:
                demanded = False       # library accepted what the reference rejects/does not judge: stop comparing
            if sh is not None:
                sh.add_to_set("states", G.observe_env(cur))
        else:
            if ref[0] in ("ok",):
                demanded = False
            if sh is not None:
                sh.count("chain:failing-step")
    return bad or bad_mode


def _short(d):
    return repr(d)[:600]


def _dumpdiff(a, b):
    if a[2:] != b[2:]:
        return "environment-mode"
    if a[1] != b[1]:
        return "custom-units"
    na, nb = [x[0] for x in a[0]], [x[0] for x in b[0]]
    if na != nb:
        return "node-list"
    fields = ["name", "type", "value", "unit", "units_raw", "dimension", "options", "condition", "format", "tags",
              "constant", "declared"]
    for x, y in zip(a[0], b[0]):
        for f, u, v in zip(fields, x, y):
            if u != v:
                return f
    return "other"


# ------------------------------------------------------------------------------------------------ harness API
def init_worker():
    from .. import isolation
    isolation.tables_snapshot()


def plan(tier, seed):
    n = NSHARD[tier]
    shards = []
    for fam in LOCAL_FAMILIES:
        for k in range(n):
            shards.append(("e2", tier, "local", fam, k, n))
        for api in (False, True):
            for k in range(n):
                shards.append(("e2", tier, "remote-api" if api else "remote", fam, k, n))
    shards.append(("e2", tier, "misc", "remote_misc", 0, 1))
    names = CHAIN_QUICK
    for a in names:
        for b in names:
            shards.append(("e1", tier, a, b))
    return shards


def _cases(where, fam, tier):
    if where == "local":
        return ((t, p, False) for t, p in local_cases(fam, tier))
    if where == "remote":
        return ((t, p, False) for t, p in remote_cases(fam, tier, False))
    if where == "remote-api":
        return ((t, p, True) for t, p in remote_cases(fam, tier, True))
    return ((t, p, False) for t, p in fam_remote_misc(tier))


def run_shard(desc):
    sh = Shard(PROPERTY)
    try:
        if desc[0] == "e2":
            _, tier, where, fam, k, n = desc
            seen = set()
            for tags, prog, api in _cases(where, fam, tier):
                key = where + "|" + repr(prog)
                if key in seen:
                    continue
                seen.add(key)
                if not mine(key, k, n):
                    continue
                verdict, bad, text = judge(prog, tags, api)
                sh.evaluations += 1
                sh.count("%s/%s:%s" % (where, fam, verdict))
                if verdict != "undemanded":
                    sh.nontrivial += 1
                    sh.add_to_set("verdicts", (fam, verdict))
                if bad:
                    sh.fail(bad)
                if len(sh.samples) < 1 and k == 0 and verdict == "accept" and "after=source-modified" in tags:
                    sh.sample(dict(family=fam, where=where, text=text))
        else:
            _, tier, a, b = desc
            depth = CHAIN_DEPTH[tier]
            names = CHAIN_QUICK
            hists = [(a,)] if a == b else []          # depth-1 histories are run once (in the diagonal shards)
            hists.append((a, b))
            for d in range(3, depth + 1):
                for tail in itertools.product(names, repeat=d - 2):
                    hists.append((a, b) + tail)
            for h in hists:
                bad = run_history(h, sh)
                sh.evaluations += 1
                sh.traces += 1
                sh.max_depth = max(sh.max_depth, len(h))
                if len(h) >= 2:
                    sh.nontrivial += 1
                sh.count("chain:histories-depth-%d" % len(h))
                if bad:
                    sh.fail(bad)
                if len(sh.samples) < 1 and a == "define" and b == "modify" and len(h) == 3:
                    sh.sample(dict(history=list(h)))
    finally:
        _cleanup()
    return sh


def replay(rec):
    c = rec["case"]
    try:
        if "history" in c:
            return run_history(tuple(c["history"]))
        verdict, bad, text = judge(c["prog"], list(c["tags"]), bool(c.get("api")))
        return bad
    finally:
        _cleanup()


def finish(total, tier, seed):
    v = total.sets.get("verdicts", set())
    need = [("inject_def", "accept"), ("inject_mod", "accept"), ("inject_mod", "reject"),
            ("inject_bad", "reject"), ("imports", "accept"), ("imports", "reject"),
            ("import_extend", "accept"), ("import_extend", "reject"), ("inject_none", "accept"),
            ("reuse_sliced_host", "accept")]
    for x in need:
        if x not in v:
            raise HarnessError("vacuous: no %s verdict in family %s" % (x[1], x[0]))
    if not any(f == "import_empty" for f, _ in v):
        raise HarnessError("vacuous: empty-import family produced no verdict")
    states = total.sets.get("states", set())
    total.states = len(states)
    if total.states < 10 or total.hist.get("chain:failing-step", 0) < 10:
        raise HarnessError("vacuous chaining exploration: states=%d failing steps=%d"
                           % (total.states, total.hist.get("chain:failing-step", 0)))
    return dict(states=len(states), chain_alphabet=CHAIN_QUICK, chain_depth=CHAIN_DEPTH[tier],
                deviation_bound_completed=CHAIN_DEPTH[tier], caps_hit=[],
                not_judged=sum(n for k, n in total.hist.items() if k.endswith(":undemanded")),
                bounds=dict(source_modifications_before="<=2", slices=sorted(
                    set(G.render_slice(s) for v_ in SLICES.values() for s, _ in v_ if s)),
                    import_forms=[f for f, _ in IMPORT_FORMS]))

MANIFEST = dict(
    text="Bounded exhaustive enumeration of reference programs on the real parser: a tree of 11 typed source nodes "
         "(float/int with units, str, bool, float[3], float[2,2], str[3], nodes with options+tags / condition / format / "
         "constant, sub-group, look-alike sibling group; tree below a group, at root or nested) x 0-2 earlier "
         "modifications x injection in definitions and modifications (host unit none / same / convertible / other "
         "dimension; host at root, in a group, dotted; every index/range slice form incl. index 2, 2-D and string "
         "slices) x imports (children, single, deep, all; root / group / named / dotted) x later modification of "
         "source, host or imported node; hosts defined by a single-axis sliced injection that are afterwards "
         "imported / modified / injected / sliced again; referenced nodes emptied by `= none` (or defined as none, or "
         "refilled) before the injection, for every host type; option/tag lines below a single-node import (the "
         "copy is extended, the original, the remote source and other imports are not); groups extended later "
         "after unrelated nodes (path notation, re-opened group, later parse); hyphens/underscores/digits in node, "
         "group and import names; the same path injected repeatedly into existing hosts with modifications of the "
         "source in between; injections delivering the empty string (empty source, text slice beyond the end) into "
         "hosts that already have a text; float32/float64/float128 sources with 9-10 significant digits; all locally and through a remote file ($source and "
         "add_source); requests "
         "selecting none/several.  Plus explicit-state exploration of all DIP(env) chaining histories up to depth 3 "
         "(quick) / 4 (thorough) over 16 programs (incl. 3 failing ones and 2 parse_docs() steps that must leave the "
         "environment they were given unchanged, mode flag included): every earlier environment stays unchanged "
         "and every result equals the reference.",
    note="Trusted: reference interpreter of the generator AST (exact rationals, own SI factors); dump of an "
         "environment = nodes with all constraint fields + custom units (sources excluded by the statement).",
    technique="bounded grammar enumeration + explicit-state history exploration, reference interpreter oracle",
)
