"""C08 - measurement uncertainties propagate consistently and stay non-negative.

E2 bounded enumeration on the real `Quantity`: every operand (value of either sign, scalar or array; exact,
absolute or relative uncertainty) and every ordered operand pair under + - * /, exact plain numbers and exact
quantities on either side of * and /, negation, powers, and in-place conversion `to()` through linear unit pairs.
The oracle is the property statement, clause by clause (uncertainties are compared in base dimensions:
abse() * factor(units()), factors from the published tables, mc/refmodels/quantity_ref.py):

  non-negative   abse() of every constructed operand and of every result is None or >= 0 element-wise
  sum            (a +- b).abse == a.abse + b.abse   (b's uncertainty expressed in a's unit; exact operand adds 0)
  exact factor   (q*c, c*q).abse == q.abse*|c| ; (q/c).abse == q.abse/|c|   (c a plain number or an exact quantity)
  first order    both uncertain and positive: (a*b).abse >= |a|db+|b|da ; (a/b).abse >= (|a|db+|b|da)/b^2
  conversion     q.to(v): abse scaled by factor(u)/factor(v); rele() unchanged.  v is given as text, as a BaseUnits
                 object, as a list of base-dimension exponents, or as an exact Quantity k*unit (k in {1, 2, 0.25});
                 for k != 1 only "rele() unchanged" is demanded (the statement does not say what the value means)
  exact          all operands exact -> result abse() is None (an all-zero uncertainty is accepted as exact too)
  rebase         q.rebase() (in-place merge of units repeating a dimension: cm*m -> cm2) is a linear conversion:
                 abse scaled like the value (compared in base dimensions), rele() unchanged
  same object    q+q, q-q, q*q, q/q with both operands the very same object obey the same clauses as two operands
  number->angle  a unit-less uncertain quantity converted to rad / mrad is a linear conversion like any other
  logarithmic    sums / differences of levels in dB, dBm, Np, B, cNp (same unit on both sides, different
                 uncertainties): the result's uncertainty is the sum of the operands' uncertainties
  Decimal        sums / differences with a Decimal magnitude on the left, on the right or on both sides
  typed errors   the uncertainty given as int / float / np.float64 / np.float32 / np.int64, through the
                 constructor and through the abse()/rele() setters, in the conversion and sum clauses
  ones           the values 1 and -1 (exact and uncertain) on both sides of products and quotients
  zero values    operands whose value is exactly 0 (scalar / array element) take part in construction, sums, exact
                 factors, conversions and rebase; a nan uncertainty there is a failure (it is neither the sum nor the
                 scaled error); rele() is compared only on non-zero elements (undefined at 0)

  scopes         histories of conversions under successive UnitEnvironment scopes that register the SAME custom symbol
                 with different magnitudes (dict and Quantity definitions): in every scope an uncertain quantity is
                 converted custom->m, m->custom, custom->prefixed custom, prefixed custom->cm, cm->custom with to()
                 and added to / subtracted from a quantity in another unit; every conversion is judged with the
                 factor of the CURRENT scope (abse scales like the value, rele unchanged, sums add); the whole
                 history is one case, class-level state of scinumtools.units.* is restored between cases

Not demanded (statement silent): the size of the uncertainty of a power, of a negation, and of c/q (exact divided
by uncertain) - only non-negativity is checked there; the first-order bound for non-positive values; whether a
result with one uncertain operand may report None for c/q, powers, negation.  Operands whose *constructed*
uncertainty is already negative (reported once under sub-check "construct") are not fed into further operations.
"""
from fractions import Fraction as F

import json
import numpy as np

from ..common import Shard, failure, outcome, HarnessError
from ..refmodels import quantity_ref as R
from .. import isolation

PROPERTY = "C08"
LEVEL = "exploration"
RULE = ("case = (operation, operands (value, uncertainty kind, unit), exact factor / exponent / target unit); every "
        "case of the stated alphabet is enumerated exactly once (case index modulo the shard count); non-trivial = "
        "at least one operand carries an uncertainty (all-exact cases exercise only the 'exact result' clause); a "
        "scope history (successive UnitEnvironment scopes re-defining one custom symbol, all conversions inside) is "
        "one case")
ASSUMPTIONS = [
    "UNIT_PREFIXES / UNIT_STANDARD factors are the specification of the linear units used (m, cm, km, s, J, erg, ...)",
    "the operands' own uncertainties are read with abse()/rele() from freshly constructed, identical operands",
    "equalities are compared with relative tolerance 1e-12, the first-order bound with slack 1e-12",
]
TOL = 1e-12
NSHARDS = 32

VALUES = [3.0, -3.0, 0.5, -0.25, [2.0, -4.0], [0.5, 3.0]]
ERRORS = [None, ["abse", 0.1], ["rele", 10.0]]
FACTORS = [2, -3, 0.5, -0.25, 1, -1, 1.0]
# thorough tier: larger alphabets (uncertainties stay well below the values, where "first order" is meaningful)
VALUES_T = VALUES + [7.5, -1e3, 40.0, [1e3, -7.5]]      # arrays all of length 2 (mixed shapes: not demanded)
ERRORS_T = ERRORS + [["abse", 0.02], ["rele", 1.0]]
FACTORS_T = FACTORS + [1e3, -1e-3]
POWERS = [2, 3, -1, -2, 0.5, -0.5, [1, 2], [-3, 2]]
# a measured value may be exactly 0 (scalar or inside an array): used wherever the statement gives an equality
# (construction, sums, exact factors, conversions, rebase); not for powers / quotients / first-order bounds
ZERO_VALUES = [0.0, [0.0, 2.0], [-4.0, 0.0]]

U_NONE = ()
U_M = (("", "m", 1),)
U_CM = (("c", "m", 1),)
U_KM = (("k", "m", 1),)
U_S = (("", "s", 1),)
U_MIN = (("", "min", 1),)
U_J = (("", "J", 1),)
U_ERG = (("", "erg", 1),)
U_KMH = (("k", "m", 1), ("", "h", -1))
U_MS = (("", "m", 1), ("", "s", -1))
U_KGM2S2 = (("k", "g", 1), ("", "m", 2), ("", "s", -2))
SUM_UNITS = [(U_M, U_M), (U_M, U_CM), (U_KM, U_M), (U_CM, U_KM), (U_NONE, U_NONE)]
MUL_UNITS = [(U_M, U_M), (U_M, U_S), (U_KM, U_M), (U_NONE, U_NONE), (U_M, U_NONE)]
UNARY_UNITS = [U_M, U_KM, U_NONE]
FACTOR_UNITS = [None, U_NONE, U_S]           # None: plain Python number; else an exact Quantity in that unit
U_RAD = (("", "rad", 1),)
U_MRAD = (("m", "rad", 1),)
CONVERSIONS = [(U_M, U_CM), (U_CM, U_KM), (U_J, U_ERG), (U_KMH, U_MS), (U_M, U_M), (U_KGM2S2, U_J), (U_S, U_MIN),
               (U_NONE, U_RAD), (U_NONE, U_MRAD), (U_RAD, U_MRAD)]          # a bare number is an angle in radians
# levels: same logarithmic unit on both sides of + / -
LOG_UNITS = [(("d", "B", 1),), (("d", "Bm", 1),), (("", "Np", 1),), (("", "B", 1),), (("c", "Np", 1),)]
LOG_LEFT = [20.0, 3.0, [30.0, 10.0]]
LOG_RIGHT = [10.0, 1.0, [3.0, 2.0]]
LOG_ERRORS = [None, ["abse", 0.1], ["abse", 0.5], ["rele", 10.0]]
# Decimal magnitudes (given as text) next to float ones, in sums and differences
DEC_VALUES = ["3", "-0.25", "0.5"]
DEC_ERRORS = [None, ["abse", 0.1], ["abse", 0.5]]
DEC_FLOAT_VALUES = [3.0, -0.25]
# the uncertainty itself given as int / float / NumPy scalar / Decimal, through the constructor and the setters
TYPED_VALUES = [30.0, [20.0, -40.0]]
TYPED_ERRORS = [[k, x, t, via] for via in ("ctor", "setter")
                for k, x, t in (("abse", 3, "int"), ("abse", 3, "float"), ("abse", 3, "np.float64"),
                                ("abse", 3, "np.float32"), ("abse", 3, "np.int64"),
                                # a Decimal uncertainty on a float value cannot even be read with rele() (Decimal/float
                                # is a TypeError in Python): outside the statement, left out

                                ("rele", 10, "int"), ("rele", 10, "np.int64"), ("rele", 10, "np.float32"))]
ONE_VALUES = [1.0, -1.0]          # both sides of products / quotients, exact and uncertain
_LEN = [U_M, U_CM, U_KM, (("m", "m", 1),), (("", "in", 1),), (("", "ft", 1),), (("", "au", 1),)]
_ENE = [U_J, U_ERG, U_KGM2S2, (("", "eV", 1),), (("k", "cal", 1),)]
CONVERSIONS_T = CONVERSIONS + [(a, b) for grp in (_LEN, _ENE) for a in grp for b in grp
                               if a != b and (a, b) not in CONVERSIONS]

U_DM = (("d", "m", 1),)
U_MM = (("m", "m", 1),)
# rebase(): in-place merge of units that repeat a dimension with different prefixes/units = a linear conversion
REBASE_UNITS = [U_CM + U_M, U_CM + U_M + U_DM, U_ERG + U_J, U_MM + U_KM, U_CM + U_S,
                (("", "m", 2), ("c", "m", -1)), U_J + U_S + (("", "erg", -1),), U_KM + (("", "m", 2),)]
SELF_UNITS = [U_M, U_KM, U_NONE, U_CM]       # a*a, a/a, a+a, a-a with BOTH operands the very same object
TARGET_SCALES = [1, 2, 0.25]     # to(Quantity(k, unit)): an exact "unit with a scale" as conversion target

# operation histories on one live quantity (length dimension throughout, so every conversion target stays admissible):
# the result of a step is the left operand of the next one, the operand objects of a chain are built once and re-used
CHAIN_STARTS = [(3.0, ["abse", 0.1], U_M), (-3.0, ["rele", 10.0], U_M), (0.5, None, U_KM),
                ([2.0, -4.0], ["abse", 0.1], U_CM)]
CHAIN_STEPS = [["add", 50.0, ["abse", 2.0], "cm"], ["add", 1.0, None, "m"], ["sub", 0.002, ["rele", 10.0], "km"],
               ["radd", 2.0, ["abse", 0.1], "m"], ["iadd", 7.0, ["abse", 0.5], "cm"],
               ["mulc", -3], ["divc", -0.25], ["cmul", 2],
               ["mul", 2.0, ["abse", 0.1], ""], ["div", 0.5, ["rele", 10.0], ""], ["mul", 3.0, None, ""],
               ["to", "cm"], ["to", "km"], ["to", "m"], ["neg"]]
CHAIN_UNITS = {"m": U_M, "cm": U_CM, "km": U_KM, "": U_NONE}
CHAIN_DEPTH = dict(quick=3, thorough=4)

# successive UnitEnvironment scopes registering the same custom symbol with another size (dict form with prefixes, or an
# exact Quantity = no prefixes); the factor of the symbol in a scope is what that scope's definition says
SCOPE_SYMBOL = "xx"
SCOPE_DEFS = [["dict", 2.0], ["dict", 5.0], ["dict", 0.25], ["quantity", 7.0, "cm"]]
SCOPE_HISTORY = dict(quick=2, thorough=3)       # every ordered pair / triple of distinct-adjacent definitions
SCOPE_VALUES = [3.0, -0.25, [2.0, -4.0], [0.0, 2.0]]
SCOPE_ERRORS = [["abse", 0.1], ["rele", 10.0], None]
# (source unit, target unit); "k" needs a prefixed custom unit: only for dict definitions (prefixes allowed there)
SCOPE_CONVERSIONS = [("xx", "m"), ("m", "xx"), ("xx", "kxx"), ("kxx", "cm"), ("cm", "xx"), ("xx", "xx")]
SCOPE_SUMS = [("add", "m", "xx"), ("add", "xx", "m"), ("sub", "xx", "cm"), ("sub", "kxx", "xx")]

_GUARD = None


def init_worker():
    global _GUARD
    R.load()
    if any(v is None for v in R.SPELL.values()):
        raise HarnessError("ambiguous unit spellings in the tables: units() text cannot be read back")
    isolation.tables_snapshot()
    isolation.class_state_snapshot(_unit_classes())
    _GUARD = _guard_state()


def _unit_classes():
    """every class defined in a scinumtools.units.* module (class-level containers / mutable defaults of these are
    restored between cases, so a history never leaks into the next case)"""
    import sys
    import inspect
    import scinumtools.units  # noqa: F401
    out = []
    for name in sorted(sys.modules):
        if name == "scinumtools.units" or name.startswith("scinumtools.units."):
            mod = sys.modules[name]
            for _, c in sorted(vars(mod).items(), key=lambda kv: kv[0]):
                if inspect.isclass(c) and (c.__module__ or "").startswith("scinumtools.units") and c not in out:
                    out.append(c)
    return out


def _guard_state():
    from scinumtools.units import settings as st
    return (len(st.UNIT_STANDARD._keys), len(st.UNIT_PREFIXES._keys), len(st.UNIT_TYPES))


# ------------------------------------------------------------------------------------------------ case <-> json
def _ju(u):
    return [[p, s, "%d/%d" % (F(e).numerator, F(e).denominator)] for p, s, e in u]


def _uj(j):
    return R.unit(*[(p, s, F(e)) for p, s, e in j])


def _opnd(v, e, u):
    return dict(v=v, e=e, u=_ju(u))


def _mk(o):
    from scinumtools.units import Quantity
    v = o["v"]
    v = list(v) if isinstance(v, (list, tuple)) else v
    if o.get("dec"):
        from decimal import Decimal
        v = Decimal(v)                      # Decimal magnitude, written as text in the case
    kw = {}
    setter = None
    if o["e"] is not None:
        e = o["e"]
        val = e[1]
        if len(e) > 2:                       # ["abse"|"rele", number, numeric type, "ctor"|"setter"]
            if e[2] == "Decimal":
                from decimal import Decimal
                val = Decimal(str(val))
            elif e[2].startswith("np."):
                val = getattr(np, e[2][3:])(val)
            else:
                val = dict(int=int, float=float)[e[2]](val)
        if len(e) > 3 and e[3] == "setter":
            setter = (e[0], val)
        else:
            kw[e[0]] = val
    u = _uj(o["u"])
    q = Quantity(v, R.render(u), **kw) if u else Quantity(v, **kw)
    if setter:
        getattr(q, setter[0])(setter[1])     # q.abse(x) / q.rele(x): the in-place setters
    return q


def _mk_factor(case):
    from scinumtools.units import Quantity
    c = case["c"]
    cu = case.get("cu")
    if cu is None:
        return c
    u = _uj(cu)
    return Quantity(c, R.render(u)) if u else Quantity(c)


def _target(case):
    """the argument of to(): unit text, BaseUnits object, list of base-dimension exponents, or an exact Quantity
    k*unit (a "unit with a scale", e.g. multiples of 2 cm)"""
    from scinumtools.units import Quantity, BaseUnits
    tf = case.get("tf", "str")
    if tf == "list":
        return [int(x) for x in R.dims(_uj(case["a"]["u"]))]
    text = R.render(_uj(case["v"]))
    if tf == "str":
        return text
    if tf == "BaseUnits":
        return BaseUnits(text)
    if tf == "Quantity":
        return Quantity(case["tk"], text)
    raise HarnessError("unknown conversion target form %r" % (tf,))


def _rele(q, case):
    """rele() as array; where the value is 0 the relative uncertainty is undefined (inf/nan or an error): those
    elements are masked in the comparison, and an exception of rele() is tolerated only then"""
    try:
        with np.errstate(all="ignore"):
            return np.asarray(q.rele(), dtype=float)
    except Exception:
        if np.any(_vals(case["a"]) == 0):
            return None
        raise


def _abse(q):
    e = q.abse()
    if e is None:
        return None
    return np.asarray(e, dtype=float)


def _factor_of(q):
    return R.map_factor(R.parse_units(q.units()))


def _vals(o):
    if o.get("dec"):
        return np.asarray(float(o["v"]))
    return np.asarray(o["v"], dtype=float)


# ------------------------------------------------------------------------------------------------ comparisons
def _nonneg(e):
    if e is None:
        return True
    with np.errstate(all="ignore"):
        return not bool(np.any(e < 0))


def _exact(e):
    return e is None or bool(np.all(e == 0))


def _eq(got, exp):
    got, exp = np.broadcast_arrays(np.asarray(got, dtype=float), np.asarray(exp, dtype=float))
    with np.errstate(all="ignore"):
        return bool(np.all(np.isfinite(got)) and np.all(np.abs(got - exp) <= TOL * np.abs(exp)))


def _hasnan(e):
    return e is not None and bool(np.any(np.isnan(e)))


def _eq_where(got, exp, mask):
    got, exp, mask = np.broadcast_arrays(np.asarray(got, dtype=float), np.asarray(exp, dtype=float),
                                         np.asarray(mask, dtype=bool))
    if not np.any(mask):
        return True
    return _eq(got[mask], exp[mask])


def _ge(got, bound, mask):
    got, bound, mask = np.broadcast_arrays(np.asarray(got, dtype=float), np.asarray(bound, dtype=float),
                                           np.asarray(mask, dtype=bool))
    with np.errstate(all="ignore"):
        return bool(np.all(got[mask] >= bound[mask] * (1 - TOL)))


def _l(x):
    return None if x is None else np.asarray(x, dtype=float).tolist()


# ------------------------------------------------------------------------------------------------ execution
def _tags(case):
    t = ["kind:" + case["k"]]
    ops = [case[k] for k in ("a", "b") if k in case]
    if "op" in case:
        t.append("op:" + case["op"])
    for o in ops:
        if np.any(_vals(o) < 0):
            t.append("value-negative")
        if o["e"] is not None:
            t.append(o["e"][0] + "-input")
            if len(o["e"]) > 2:
                t.append("error-type:" + o["e"][2])
                t.append("error-via:" + o["e"][3])
        if _vals(o).ndim:
            t.append("array")
        if np.any(_vals(o) == 0):
            t.append("value-zero")
    if case["k"] == "num":
        t.append("factor-negative" if case["c"] < 0 else "factor-positive")
        t.append("factor:plain" if case.get("cu") is None else "factor:exact-quantity")
        t.append("side:" + case["side"])
    if case["k"] == "bin":
        a, b = case["a"], case["b"]
        if (a["e"] is None) != (b["e"] is None):
            exact = a if a["e"] is None else b
            t.append("one-operand-exact")
            t.append("factor-negative" if np.any(_vals(exact) < 0) else "factor-positive")
        elif a["e"] is None:
            t.append("both-exact")
        else:
            t.append("both-uncertain")
        if a["u"] != b["u"]:
            t.append("mixed-units")
        if case.get("same"):
            t.append("same-object")
        if a.get("dec"):
            t.append("decimal-left")
        if b.get("dec"):
            t.append("decimal-right")
        if any(sym in ("B", "Bm", "Np") for _, sym, _ in a["u"]):
            t.append("logarithmic")
    if case["k"] == "pow":
        p = case["p"]
        pv = p[0] / p[1] if isinstance(p, list) else p
        t.append("exp-negative" if pv < 0 else "exp-positive")
    if case["k"] == "to":
        tf = case.get("tf", "str")
        if tf == "list" or case["a"]["u"] != case["v"]:
            t.append("unit-conversion")
        t.append("target:" + tf)
        if tf == "Quantity":
            t.append("target-scale=1" if case["tk"] == 1 else "target-scale!=1")
    return t


def _run(case):
    """Execute the case on fresh objects.  Returns a dict of observations (all plain numpy / None)."""
    k = case["k"]
    obs = {}
    a = _mk(case["a"])
    obs["ea"] = _abse(a)
    obs["fa"] = _factor_of(a)
    if k == "construct":
        return obs
    if not _nonneg(obs["ea"]):
        obs["defective"] = True
        return obs
    if k == "bin":
        b = a if case.get("same") else _mk(case["b"])
        obs["eb"] = _abse(b)
        obs["fb"] = _factor_of(b)
        if not _nonneg(obs["eb"]):
            obs["defective"] = True
            return obs
        op = case["op"]
        res = a + b if op == "add" else a - b if op == "sub" else a * b if op == "mul" else a / b
    elif k == "num":
        c = _mk_factor(case)
        op, side = case["op"], case["side"]
        if op == "mul":
            res = c * a if side == "L" else a * c
        else:
            res = c / a if side == "L" else a / c
    elif k == "neg":
        res = -a
    elif k == "pow":
        p = case["p"]
        res = a ** (tuple(p) if isinstance(p, list) else p)
    elif k in ("to", "rebase"):
        if obs["ea"] is not None:
            obs["ra"] = _rele(a, case)
        res = a.to(_target(case)) if k == "to" else a.rebase()
        if res.abse() is not None:
            obs["rr"] = _rele(res, case)
    else:
        raise HarnessError("unknown case kind %r" % (k,))
    obs["er"] = _abse(res)
    obs["fr"] = _factor_of(res)
    obs["units"] = res.units()
    return obs


def check_case(case):
    """-> (failure|None, histogram label)"""
    k = case["k"]
    if k == "chain":
        return check_chain(case)
    if k == "scopes":
        return check_scopes(case)
    tags = _tags(case)
    sub = dict(construct="construct", bin=dict(add="sum", sub="sum", mul="product", div="quotient").get(
        case.get("op"), "?"), num="exact-factor", neg="negation", pow="power", to="conversion", rebase="rebase")[k]
    out = outcome(_run, case)
    if _guard_state() != _GUARD or out[0] == "err":
        isolation.tables_restore()
    if out[0] == "err":
        return failure(sub, case, "a result", list(out[1:]), tags=tags, behaviour="raises:" + out[1]), "raised"
    o = out[1]
    if o.get("defective"):
        return None, "skipped:defective-operand"

    def bad(expected, observed, behaviour, label):
        return failure(sub, case, expected, observed, tags=tags, behaviour=behaviour), label

    ea, fa = o["ea"], o["fa"]
    if k == "construct":
        if not _nonneg(ea):
            return bad("abse() >= 0", dict(abse=_l(ea)), "negative-uncertainty", "bad:negative")
        if case["a"]["e"] is None and not _exact(ea):
            return bad("abse() is None", dict(abse=_l(ea)), "not-exact", "bad:not-exact")
        return None, "ok"
    er, fr = o["er"], o["fr"]
    if not _nonneg(er):
        return bad("abse() >= 0", dict(abse=_l(er), units=o["units"]), "negative-uncertainty", "bad:negative")
    A = _vals(case["a"]) * fa
    dA = None if ea is None else ea * fa          # operand uncertainty in base dimensions
    dR = None if er is None else er * fr
    obs = dict(abse=_l(er), units=o["units"], operand_abse=_l(ea))
    if k == "bin":
        eb, fb = o["eb"], o["fb"]
        B = _vals(case["b"]) * fb
        dB = None if eb is None else eb * fb
        obs["right_abse"] = _l(eb)
        op = case["op"]
        if dA is None and dB is None:
            if not _exact(er):
                return bad("exact result (abse() None)", obs, "not-exact", "bad:not-exact")
            return None, "ok:exact"
        zA = 0.0 if dA is None else dA
        zB = 0.0 if dB is None else dB
        if op in ("add", "sub"):
            if er is None:
                return bad(dict(base_abse=_l(zA + zB)), obs, "uncertainty-lost", "bad:lost")
            if _hasnan(er):
                return bad(dict(abse=_l((zA + zB) / fr)), obs, "nan-uncertainty", "bad:nan")
            if not _eq(dR, zA + zB):
                beh = "wrong-sum"
                if eb is not None and fb != fa and _eq(er, (0.0 if ea is None else ea) + eb):
                    beh = "right-uncertainty-not-converted"
                return bad(dict(abse=_l((zA + zB) / fr)), obs, beh, "bad:" + beh)
            return None, "ok:sum"
        if dA is not None and dB is not None:
            pos = (A > 0) & (B > 0)
            with np.errstate(all="ignore"):
                bound = np.abs(A) * dB + np.abs(B) * dA
                if op == "div":
                    bound = bound / (B * B)
            if er is None:
                return bad(dict(base_abse_at_least=_l(bound)), obs, "uncertainty-lost", "bad:lost")
            if np.any(pos) and not _ge(dR, bound, pos):
                return bad(dict(abse_at_least=_l(bound / fr)), obs, "below-first-order", "bad:below-first-order")
            return None, ("ok:first-order" if np.any(pos) else "ok:nonneg-only")
        # exactly one operand exact: it acts as an exact number
        if op == "mul":
            expd = np.abs(A) * dB if dA is None else np.abs(B) * dA
        elif dB is None:
            expd = dA / np.abs(B)
        else:
            return None, "ok:nonneg-only"                   # exact / uncertain: size not demanded
        if er is None:
            return bad(dict(base_abse=_l(expd)), obs, "uncertainty-lost", "bad:lost")
        if not _eq(dR, expd):
            return bad(dict(abse=_l(expd / fr)), obs, "wrong-scale", "bad:wrong-scale")
        return None, "ok:exact-factor"
    if k == "num":
        if dA is None:
            if not _exact(er):
                return bad("exact result (abse() None)", obs, "not-exact", "bad:not-exact")
            return None, "ok:exact"
        cu = case.get("cu")
        C = abs(float(case["c"])) * (R.map_factor(R.umap(_uj(cu))) if cu else 1.0)
        if case["op"] == "mul":
            expd = dA * C
        elif case["side"] == "R":
            expd = dA / C
        else:
            return None, "ok:nonneg-only"                   # c / q: size not demanded
        if er is None:
            return bad(dict(base_abse=_l(expd)), obs, "uncertainty-lost", "bad:lost")
        if _hasnan(er):
            return bad(dict(abse=_l(expd / fr)), obs, "nan-uncertainty", "bad:nan")
        if not _eq(dR, expd):
            return bad(dict(abse=_l(expd / fr)), obs, "wrong-scale", "bad:wrong-scale")
        return None, "ok:exact-factor"
    if k in ("neg", "pow"):
        if dA is None and not _exact(er):
            return bad("exact result (abse() None)", obs, "not-exact", "bad:not-exact")
        return None, ("ok:exact" if dA is None else "ok:nonneg-only")
    if k in ("to", "rebase"):
        if dA is None:
            if not _exact(er):
                return bad("exact result (abse() None)", obs, "not-exact", "bad:not-exact")
            return None, "ok:exact"
        if er is None:
            return bad(dict(base_abse=_l(dA)), obs, "uncertainty-lost", "bad:lost")
        if _hasnan(er):
            return bad(dict(abse=_l(dA / fr)), obs, "nan-uncertainty", "bad:nan")
        scaled_target = case.get("tf") == "Quantity" and case["tk"] != 1
        # target k*unit with k != 1: what the value means there is not in the statement; "relative uncertainty is
        # unchanged" decides (below), the absolute size is compared only for pure unit targets
        if not scaled_target and not _eq(dR, dA):
            beh = "wrong-scale"
            if fr != fa and _eq(er, ea):
                beh = "uncertainty-not-converted"
            return bad(dict(abse=_l(dA / fr)), obs, beh, "bad:" + beh)
        nonzero = _vals(case["a"]) != 0          # rele of a zero value is undefined: compared elsewhere only
        if np.any(nonzero) and (o.get("rr") is None or o.get("ra") is None
                                or not _eq_where(o["rr"], o["ra"], nonzero)):
            obs["rele_before"] = _l(o.get("ra"))
            obs["rele_after"] = _l(o.get("rr"))
            return bad("rele() unchanged", obs, "rele-changed", "bad:rele-changed")
        if k == "rebase":
            return None, "ok:rebase" + (":factor!=1" if fr != fa else ":factor=1")
        return None, "ok:conversion" + (":" + case["tf"] if "tf" in case else "")
    raise HarnessError("unknown case kind %r" % (k,))


# ------------------------------------------------------------------------------------------------ chains (histories)
def _chain_state(q):
    """what the object reports now, in base dimensions: (value, uncertainty or None, abse, factor, rele or None)"""
    e = _abse(q)
    f = _factor_of(q)
    v = np.asarray(q.value(), dtype=float) * f
    r = None
    if e is not None:
        try:
            with np.errstate(all="ignore"):
                r = np.asarray(q.rele(), dtype=float)
        except Exception:
            r = None
    return v, (None if e is None else e * f), e, f, r


def _run_chain(case):
    """-> None when every step agrees with the statement, else (step index, expected, observed, behaviour).  The
    expectation of a step is computed from what the operands report *immediately before* it (the statement is about
    the operands of the operation), so an earlier step never has to be trusted."""
    q = _mk(case["a"])
    pool = {}
    for i, st in enumerate(case["steps"]):
        op = st[0]
        A, dA, ea, fa, ra = _chain_state(q)
        if not _nonneg(ea):
            return (i, "abse() >= 0 before the step", dict(abse=_l(ea)), "negative-uncertainty")
        B = dB = None
        if op in ("add", "sub", "radd", "iadd", "mul", "div"):
            key = json.dumps(st)
            if key not in pool:
                pool[key] = _mk(_opnd(st[1], st[2], CHAIN_UNITS[st[3]]))
            b = pool[key]
            B, dB, eb, fb, _ = _chain_state(b)
            if op == "add":
                res = q + b
            elif op == "sub":
                res = q - b
            elif op == "radd":
                res = b + q
            elif op == "iadd":
                res = q
                res += b
            elif op == "mul":
                res = q * b
            else:
                res = q / b
        elif op == "mulc":
            res = q * st[1]
        elif op == "cmul":
            res = st[1] * q
        elif op == "divc":
            res = q / st[1]
        elif op == "to":
            res = q.to(st[1])
        elif op == "neg":
            res = -q
        else:
            raise HarnessError("unknown chain step %r" % (st,))
        R_, dR, er, fr, rr = _chain_state(res)
        obs = dict(step=st, before=dict(abse=_l(ea), base_abse=_l(dA)), after=dict(abse=_l(er), units=res.units()))
        if dB is not None or B is not None:
            obs["right_base_abse"] = _l(dB)
        if not _nonneg(er):
            return (i, "abse() >= 0", obs, "negative-uncertainty")
        if _hasnan(er):
            return (i, "a number", obs, "nan-uncertainty")
        exact_in = dA is None and dB is None
        if exact_in:
            if not _exact(er):
                return (i, "exact result (abse() None)", obs, "not-exact")
        elif op in ("add", "sub", "radd", "iadd"):
            want = (0.0 if dA is None else dA) + (0.0 if dB is None else dB)
            if er is None:
                return (i, dict(base_abse=_l(want)), obs, "uncertainty-lost")
            if not _eq(dR, want):
                return (i, dict(base_abse=_l(want)), obs, "wrong-sum")
        elif op in ("mulc", "cmul", "divc"):
            c = abs(float(st[1]))
            want = dA * c if op != "divc" else dA / c
            if er is None:
                return (i, dict(base_abse=_l(want)), obs, "uncertainty-lost")
            if not _eq(dR, want):
                return (i, dict(base_abse=_l(want)), obs, "wrong-scale")
        elif op in ("mul", "div"):
            if dA is not None and dB is not None:
                pos = (A > 0) & (B > 0)
                with np.errstate(all="ignore"):
                    bound = np.abs(A) * dB + np.abs(B) * dA
                    if op == "div":
                        bound = bound / (B * B)
                if er is None:
                    return (i, dict(base_abse_at_least=_l(bound)), obs, "uncertainty-lost")
                if np.any(pos) and not _ge(dR, bound, pos):
                    return (i, dict(base_abse_at_least=_l(bound)), obs, "below-first-order")
            elif dB is None:                       # exact quantity as right operand: an exact number
                want = dA * np.abs(B) if op == "mul" else dA / np.abs(B)
                if er is None:
                    return (i, dict(base_abse=_l(want)), obs, "uncertainty-lost")
                if not _eq(dR, want):
                    return (i, dict(base_abse=_l(want)), obs, "wrong-scale")
            elif op == "mul":                      # exact * uncertain
                want = np.abs(A) * dB
                if er is None:
                    return (i, dict(base_abse=_l(want)), obs, "uncertainty-lost")
                if not _eq(dR, want):
                    return (i, dict(base_abse=_l(want)), obs, "wrong-scale")
            # exact / uncertain: size not demanded
        elif op == "to":
            if er is None:
                return (i, dict(base_abse=_l(dA)), obs, "uncertainty-lost")
            if not _eq(dR, dA):
                return (i, dict(base_abse=_l(dA)), obs,
                        "uncertainty-not-converted" if fr != fa and _eq(er, ea) else "wrong-scale")
            nz = A != 0
            if np.any(nz) and (rr is None or ra is None or not _eq_where(rr, ra, nz)):
                obs["rele_before"], obs["rele_after"] = _l(ra), _l(rr)
                return (i, "rele() unchanged", obs, "rele-changed")
        # neg: only non-negativity / exactness are demanded
        q = res
    return None


def check_chain(case):
    out = outcome(_run_chain, case)
    if _guard_state() != _GUARD or out[0] == "err":
        isolation.tables_restore()
    tags = ["kind:chain", "depth:%d" % len(case["steps"])]
    if out[0] == "err":
        return failure("chain", case, "every step gives a result", list(out[1:]), tags=tags,
                       behaviour="raises:" + out[1]), "raised"
    if out[1] is None:
        return None, "ok"
    i, expected, observed, behaviour = out[1]
    tags += ["step:" + case["steps"][i][0], "at:%d" % i]
    return failure("chain", dict(case, failing_step=i), expected, observed, tags=tags, behaviour=behaviour), \
        "bad:" + behaviour


def _chains(tier):
    depth = CHAIN_DEPTH[tier]
    for v, e, u in CHAIN_STARTS:
        a = _opnd(v, e, u)
        frontier = [[]]
        for _ in range(depth):
            nxt = []
            for h in frontier:
                for st in CHAIN_STEPS:
                    if h and st[0] == "to" and h[-1] == st:
                        continue                      # the same conversion twice in a row adds nothing
                    nxt.append(h + [st])
            frontier = nxt
        # only full-depth histories are run: every shorter history is a prefix of one and judged step by step there
        for h in frontier:
            yield dict(k="chain", a=a, steps=h)


# ------------------------------------------------------------------------------------------------ scope histories
def _scope_factor(unit, d):
    """factor of a unit text of the scope alphabet to base dimensions (m) while definition d is registered"""
    f = d[1] if d[0] == "dict" else d[1] * {"cm": 0.01, "m": 1.0}[d[2]]
    return {"m": 1.0, "cm": 0.01, "xx": f, "kxx": 1e3 * f}[unit]


def _scope_units(d):
    from scinumtools.units import Quantity
    if d[0] == "dict":
        return {SCOPE_SYMBOL: {"magnitude": d[1], "dimensions": [1, 0, 0, 0, 0, 0, 0, 0], "prefixes": True}}
    return {SCOPE_SYMBOL: Quantity(d[1], d[2])}


def _scope_ops(d):
    pref = d[0] == "dict"
    for u, v in SCOPE_CONVERSIONS:
        if pref or not (u.startswith("k") or v.startswith("k")):
            yield ("to", u, v)
    for op, u, v in SCOPE_SUMS:
        if pref or not (u.startswith("k") or v.startswith("k")):
            yield (op, u, v)


def _run_scopes(case):
    """-> None, or (scope index, op, expected, observed, behaviour) of the first step that breaks the statement"""
    from scinumtools.units import Quantity, UnitEnvironment
    v, e = case["a"]["v"], case["a"]["e"]
    kw = {} if e is None else {e[0]: e[1]}
    vals = np.asarray(v, dtype=float)

    def mk(u):
        return Quantity(list(v) if isinstance(v, list) else v, u, **kw)

    for si, d in enumerate(case["defs"]):
        with UnitEnvironment(_scope_units(d)):
            for op, u, w in _scope_ops(d):
                fu, fw = _scope_factor(u, d), _scope_factor(w, d)
                a = mk(u)
                ea = _abse(a)
                ra = None if ea is None else _rele(a, case)
                if op == "to":
                    res = a.to(w)
                    fr = fw
                    want_units = w
                else:
                    b = mk(w)
                    eb = _abse(b)
                    res = a + b if op == "add" else a - b
                    fr = fu
                    want_units = u
                er = _abse(res)
                obs = dict(scope=si, definition=d, step=[op, u, w], operand_abse=_l(ea), abse=_l(er),
                           units=res.units(), value=_l(res.value()))
                if res.units() != want_units:
                    raise HarnessError("scope history: result units %r, expected %r" % (res.units(), want_units))
                if not _nonneg(er):
                    return (si, op, "abse() >= 0", obs, "negative-uncertainty")
                if ea is None:
                    if not _exact(er):
                        return (si, op, "exact result (abse() None)", obs, "not-exact")
                    continue
                if op == "to":
                    want = ea * fu / fw
                else:
                    want = (ea * fu + eb * fw) / fu
                if er is None:
                    return (si, op, dict(abse=_l(want)), obs, "uncertainty-lost")
                if _hasnan(er):
                    return (si, op, dict(abse=_l(want)), obs, "nan-uncertainty")
                if not _eq(er, want):
                    return (si, op, dict(abse=_l(want)), obs, "wrong-scale" if op == "to" else "wrong-sum")
                if op == "to":
                    rr = _rele(res, case)
                    nz = vals != 0
                    if np.any(nz) and (rr is None or ra is None or not _eq_where(rr, ra, nz)):
                        obs["rele_before"], obs["rele_after"] = _l(ra), _l(rr)
                        return (si, op, "rele() unchanged", obs, "rele-changed")
    return None


def _scope_restore():
    isolation.tables_restore()
    return isolation.class_state_restore()


def check_scopes(case):
    _scope_restore()
    out = outcome(_run_scopes, case)
    _scope_restore()
    tags = ["kind:scopes", "scopes:%d" % len(case["defs"])]
    if case["a"]["e"] is not None:
        tags.append(case["a"]["e"][0] + "-input")
    if _vals(case["a"]).ndim:
        tags.append("array")
    if out[0] == "err":
        if out[1] == "HarnessError":
            raise HarnessError(out[2])
        return failure("scopes", case, "every conversion gives a result", list(out[1:]), tags=tags,
                       behaviour="raises:" + out[1]), "raised"
    if out[1] is None:
        return None, "ok"
    si, op, expected, observed, behaviour = out[1]
    tags += ["step:" + op, "in-scope:%d" % si, "redefined-symbol" if si else "first-definition"]
    return failure("scopes", dict(case, failing_scope=si), expected, observed, tags=tags, behaviour=behaviour), \
        "bad:" + behaviour


def _scope_cases(tier):
    n = SCOPE_HISTORY[tier]
    hist = [[]]
    for _ in range(n):
        hist = [h + [d] for h in hist for d in SCOPE_DEFS if not h or h[-1] != d]
    for h in hist:
        for v in SCOPE_VALUES:
            for e in SCOPE_ERRORS:
                yield dict(k="scopes", defs=h, a=dict(v=v, e=e, u=[]))


# ------------------------------------------------------------------------------------------------ enumeration
def _cases(tier):
    thorough = tier == "thorough"
    values, errors = (VALUES_T, ERRORS_T) if thorough else (VALUES, ERRORS)
    factors = FACTORS_T if thorough else FACTORS
    conversions = CONVERSIONS_T if thorough else CONVERSIONS

    def _operands(u):
        for v in values:
            for e in errors:
                yield _opnd(v, e, u)

    def _zeros(u):
        for v in ZERO_VALUES:
            for e in errors:
                yield _opnd(v, e, u)

    def _operands_z(u):
        yield from _operands(u)
        yield from _zeros(u)

    for u in (U_M, U_CM, U_KM, U_S, U_NONE, U_J, U_KMH, U_KGM2S2):
        for o in _operands_z(u):
            yield dict(k="construct", a=o)
    for op, pairs in (("add", SUM_UNITS), ("sub", SUM_UNITS)):
        for ua, ub in pairs:
            for a in _operands_z(ua):
                for b in _operands_z(ub):
                    yield dict(k="bin", op=op, a=a, b=b)
    def _ones(u):
        for v in ONE_VALUES:
            for e in errors:
                yield _opnd(v, e, u)

    for op, pairs in (("mul", MUL_UNITS), ("div", MUL_UNITS)):
        for ua, ub in pairs:
            for a in _operands(ua):
                for b in _operands(ub):
                    yield dict(k="bin", op=op, a=a, b=b)
            # the values 1 and -1 (exact and uncertain) on either side, and on both
            for a in _ones(ua):
                for b in list(_operands(ub)) + list(_ones(ub)):
                    yield dict(k="bin", op=op, a=a, b=b)
            for b in _ones(ub):
                for a in _operands(ua):
                    yield dict(k="bin", op=op, a=a, b=b)
    # uncertainty of another numeric type / set through abse() and rele(): conversion and sum clauses
    typed = [(v, e) for v in TYPED_VALUES for e in TYPED_ERRORS]
    for u, v in CONVERSIONS:
        for x, e in typed:
            yield dict(k="to", a=_opnd(x, e, u), v=_ju(v))
            yield dict(k="to", a=_opnd(x, e, u), v=_ju(v), tf="BaseUnits")
    for op in ("add", "sub"):
        for ua, ub in SUM_UNITS:
            for x, e in typed:
                if e[2] == "Decimal":
                    continue      # Decimal + float uncertainties cannot be added in Python: outside the statement
                for y, f in ((3.0, None), (0.5, ["abse", 0.1]), (-3.0, ["rele", 10.0])):
                    yield dict(k="bin", op=op, a=_opnd(x, e, ua), b=_opnd(y, f, ub))
                    yield dict(k="bin", op=op, a=_opnd(y, f, ua), b=_opnd(x, e, ub))
    # levels in logarithmic units: the same unit on both sides, different uncertainties
    for u in LOG_UNITS:
        for va in LOG_LEFT:
            for vb in LOG_RIGHT:
                for ea in LOG_ERRORS:
                    for eb in LOG_ERRORS:
                        yield dict(k="bin", op="add", a=_opnd(va, ea, u), b=_opnd(vb, eb, u))
                        yield dict(k="bin", op="add", a=_opnd(vb, eb, u), b=_opnd(va, ea, u))
                        if np.all(np.asarray(va) > np.asarray(vb)):      # a level difference needs a > b
                            yield dict(k="bin", op="sub", a=_opnd(va, ea, u), b=_opnd(vb, eb, u))
    # Decimal magnitudes on the left, on the right, on both sides
    decs = [dict(_opnd(v, e, ()), dec=True) for v in DEC_VALUES for e in DEC_ERRORS]
    flts = [_opnd(v, e, ()) for v in DEC_FLOAT_VALUES for e in ERRORS]
    for op in ("add", "sub"):
        for ua, ub in SUM_UNITS:
            for a in decs + flts:
                for b in decs + flts:
                    if a.get("dec") or b.get("dec"):
                        yield dict(k="bin", op=op, a=dict(a, u=_ju(ua)), b=dict(b, u=_ju(ub)))
    # both operands the very same object (q*q, q/q, q+q, q-q): same clauses as for two distinct operands
    for u in SELF_UNITS:
        for op in ("add", "sub", "mul", "div"):
            for a in (_operands_z(u) if op in ("add", "sub") else _operands(u)):
                yield dict(k="bin", op=op, a=a, b=a, same=True)
    for u in REBASE_UNITS:
        for a in _operands_z(u):
            yield dict(k="rebase", a=a)
    for u in UNARY_UNITS:
        for a in _zeros(u):
            yield dict(k="neg", a=a)
            for c in factors:
                for cu in FACTOR_UNITS:
                    yield dict(k="num", op="mul", side="L", c=c, cu=None if cu is None else _ju(cu), a=a)
                    yield dict(k="num", op="mul", side="R", c=c, cu=None if cu is None else _ju(cu), a=a)
                    yield dict(k="num", op="div", side="R", c=c, cu=None if cu is None else _ju(cu), a=a)
    for u in UNARY_UNITS:
        for a in _operands(u):
            yield dict(k="neg", a=a)
            for p in POWERS:
                pv = p[0] / p[1] if isinstance(p, list) else p
                if pv != int(pv) and np.any(_vals(a) < 0):
                    continue                                  # negative ** non-integer: not demanded
                yield dict(k="pow", a=a, p=p)
            for c in factors:
                for cu in FACTOR_UNITS:
                    for op in ("mul", "div"):
                        for side in ("L", "R"):
                            yield dict(k="num", op=op, side=side, c=c, cu=None if cu is None else _ju(cu), a=a)
    for u, v in conversions:
        for a in _operands_z(u):
            yield dict(k="to", a=a, v=_ju(v))
            yield dict(k="to", a=a, v=_ju(v), tf="BaseUnits")
            for tk in TARGET_SCALES:
                yield dict(k="to", a=a, v=_ju(v), tf="Quantity", tk=tk)
    for u in sorted(set(u for u, _ in conversions), key=R.render):
        for a in _operands_z(u):
            yield dict(k="to", a=a, v=_ju(u), tf="list")       # target = list of base-dimension exponents
    yield from _chains(tier)
    yield from _scope_cases(tier)


def plan(tier, seed):
    init_worker()
    return [("all", tier, k) for k in range(NSHARDS)]


def run_shard(desc):
    _, tier, k = desc
    sh = Shard(PROPERTY)
    for i, case in enumerate(_cases(tier)):
        if i % NSHARDS != k:
            continue
        bad, label = check_case(case)
        kind = case["k"] + (":" + case["op"] if "op" in case else "")
        sh.count(kind + ":" + label)
        if label.startswith("skipped"):
            continue
        sh.evaluations += 1
        uncertain = any(case[x]["e"] is not None for x in ("a", "b") if x in case)
        if case["k"] == "chain":
            uncertain = True               # every history contains uncertain operands or starts from one
            sh.transitions += len(case["steps"])
            sh.add_extra("chain_steps", len(case["steps"]))
        if case["k"] == "scopes":
            nops = sum(len(list(_scope_ops(d))) for d in case["defs"])
            sh.transitions += nops
            sh.add_extra("scope_steps", nops)
            if uncertain and label == "ok":
                sh.add_extra("scope_histories_uncertain", 1)
        if uncertain:
            sh.nontrivial += 1
        if case["k"] == "bin" and label == "ok:sum":
            if any(sym in ("B", "Bm", "Np") for _, sym, _ in case["a"]["u"]):
                sh.add_extra("logarithmic_sums", 1)
            if case["a"].get("dec") or case["b"].get("dec"):
                sh.add_extra("decimal_sums", 1)
        if case["k"] == "to" and label.startswith("ok:conversion") and len(case["a"]["e"] or []) > 2:
            sh.add_extra("typed_conversions", 1)
        if case["k"] == "bin" and case["op"] == "mul" and label.startswith("ok:") and any(
                not _vals(case[x]).ndim and abs(float(_vals(case[x]))) == 1.0 for x in ("a", "b")):
            sh.add_extra("ones_products", 1)
        if case.get("same") and label == "ok:first-order":
            sh.add_extra("same_object_first_order", 1)
        if case["k"] == "to" and uncertain and label.startswith("ok:conversion") and np.any(_vals(case["a"]) == 0):
            sh.add_extra("zero_value_conversions", 1)
        if bad:
            sh.fail(bad)
        elif uncertain and len(sh.samples) < 1 and k % 8 == 0:
            sh.sample(case)
    if isolation.tables_restore():
        sh.add_extra("table_leaks_restored", 1)
    isolation.class_state_restore()
    return sh


def replay(rec):
    init_worker()
    isolation.tables_restore()
    isolation.class_state_restore()
    bad, label = check_case(rec["case"])
    isolation.tables_restore()
    isolation.class_state_restore()
    return bad


def finish(total, tier, seed):
    h = total.hist

    def tot(prefix):
        return sum(v for key, v in h.items() if key.startswith(prefix))
    need = {
        "constructed operands": tot("construct:"),
        "sums": tot("bin:add:ok:sum") + tot("bin:add:bad"),
        "differences": tot("bin:sub:ok:sum") + tot("bin:sub:bad"),
        "products with first-order bound": h.get("bin:mul:ok:first-order", 0) + tot("bin:mul:bad"),
        "quotients with first-order bound": h.get("bin:div:ok:first-order", 0) + tot("bin:div:bad"),
        "exact factors": tot("num:mul:ok:exact-factor") + tot("num:mul:bad") + tot("num:div:bad"),
        "exact results": sum(v for key, v in h.items() if key.endswith(":ok:exact")),
        "conversions": tot("to:ok:conversion") + tot("to:bad"),
        "conversions to a BaseUnits object": h.get("to:ok:conversion:BaseUnits", 0) + tot("to:bad"),
        "conversions to a Quantity object": h.get("to:ok:conversion:Quantity", 0) + tot("to:bad"),
        "rebase with a factor": h.get("rebase:ok:rebase:factor!=1", 0) + tot("rebase:bad"),
        "same-object products with first-order bound": total.extra.get("same_object_first_order", 0)
            + tot("bin:mul:bad"),
        "zero-valued uncertain operands converted": total.extra.get("zero_value_conversions", 0) + tot("to:bad"),
        "logarithmic sums": total.extra.get("logarithmic_sums", 0) + tot("bin:add:bad"),
        "sums with a Decimal magnitude": total.extra.get("decimal_sums", 0) + tot("bin:add:bad"),
        "typed uncertainties converted": total.extra.get("typed_conversions", 0) + tot("to:bad"),
        "products with a factor one": total.extra.get("ones_products", 0) + tot("bin:mul:bad"),
        "powers": tot("pow:"),
        "negations": tot("neg:"),
        "operation histories": tot("chain:"),
        "uncertain conversions under a redefined custom symbol": total.extra.get("scope_histories_uncertain", 0)
            + tot("scopes:bad") + tot("scopes:raised"),
    }
    empty = [name for name, v in need.items() if v == 0]
    if empty:
        raise HarnessError("vacuous run, no case of: " + ", ".join(empty))
    skipped = sum(v for key, v in h.items() if key.endswith("skipped:defective-operand"))
    return dict(
        bounds=dict(values=VALUES_T if tier == "thorough" else VALUES, zero_values=ZERO_VALUES,
                    rebase_units=[R.render(R.unit(*u)) for u in REBASE_UNITS],
                    same_object_units=[R.render(R.unit(*u)) for u in SELF_UNITS],
                    logarithmic_units=[R.render(R.unit(*u)) for u in LOG_UNITS],
                    logarithmic_values=[LOG_LEFT, LOG_RIGHT], logarithmic_uncertainties=LOG_ERRORS,
                    decimal_values=DEC_VALUES, decimal_uncertainties=DEC_ERRORS,
                    uncertainties=ERRORS_T if tier == "thorough" else ERRORS,
                    exact_factors=FACTORS_T if tier == "thorough" else FACTORS, powers=POWERS,
                    sum_unit_pairs=[[R.render(a), R.render(b)] for a, b in SUM_UNITS],
                    product_unit_pairs=[[R.render(a), R.render(b)] for a, b in MUL_UNITS],
                    conversions=[[R.render(a), R.render(b)]
                                 for a, b in (CONVERSIONS_T if tier == "thorough" else CONVERSIONS)], tolerance=TOL),
        chains=dict(starts=CHAIN_STARTS, steps=CHAIN_STEPS, depth=CHAIN_DEPTH[tier],
                    histories=tot("chain:"), steps_judged=total.extra.get("chain_steps", 0)),
        scopes=dict(symbol=SCOPE_SYMBOL, definitions=SCOPE_DEFS, scopes_per_history=SCOPE_HISTORY[tier],
                    values=SCOPE_VALUES, uncertainties=SCOPE_ERRORS, conversions=SCOPE_CONVERSIONS, sums=SCOPE_SUMS,
                    histories=tot("scopes:"), steps_judged=total.extra.get("scope_steps", 0),
                    class_state="scinumtools.units.* class-level containers restored between cases"),
        caps_hit=[],
        cases_skipped_because_operand_uncertainty_negative=skipped,
        table_leaks_restored=total.extra.get("table_leaks_restored", 0),
    )

MANIFEST = dict(
    text="Bounded exhaustive check of uncertainty propagation on the real Quantity: operands {3,-3,0.5,-0.25, "
         "[2,-4],[0.5,3]} x {exact, abse 0.1, rele 10%} in m/cm/km/s/unit-less; every ordered pair under + - * / "
         "(5 unit pairs each, incl. mixed prefixes and folding), exact factors {2,-3,0.5,-0.25} as plain numbers and "
         "exact quantities on both sides of * and /, negation, 8 exponents, to() through 7 linear unit pairs with the target as text, BaseUnits, "
         "base-dimension list or exact Quantity k*unit (k=1,2,0.25), rebase() on 8 units that repeat a dimension, "
         "same-object operands (q*q, q/q, q+q, q-q), number->rad/mrad conversions, sums of levels in 5 logarithmic units, "
         "Decimal magnitudes in sums, zero-valued uncertain operands in every equality clause "
         "(thorough: 10 values x 5 uncertainty kinds, 6 factors, 65 unit pairs; 65 500 cases); every operation "
         "history of depth 3 (thorough 4) over 15 steps (sums with uncertain/exact operands in other prefixes, "
         "reflected and augmented sums, exact factors, uncertain and exact unit-less multiplicands, in-place "
         "conversions m/cm/km, negation) from 4 start quantities, each step judged from what its operands report "
         "immediately before it (13 152 / 194 784 histories); every ordered pair (thorough: triple) of 4 definitions "
         "(magnitudes 2, 5, 0.25 as dict with prefixes, 7 cm as Quantity) of one custom symbol registered in "
         "successive UnitEnvironment scopes x 4 values x {abse, rele, exact}: in each scope to() through custom->m, "
         "m->custom, custom->kilo-custom, kilo-custom->cm, cm->custom and 4 mixed-unit sums, judged with the factor "
         "of the current scope (144 / 432 histories, class-level state of scinumtools.units.* restored between cases). "
         "Checked: abse never negative; sums add uncertainties; exact factor scales by |c|; first-order lower bound "
         "for positive uncertain products/quotients; conversion scales abse with the value and keeps rele; exact "
         "operands give exact results.",
    note="Trusted: published unit factors as data, float64 comparison at rel 1e-12. Size of the uncertainty of "
         "powers, negation and c/q is not demanded by the statement (only non-negativity is checked). Values outside "
         "the alphabet rely on the small-scope hypothesis.",
    technique="bounded exhaustive enumeration of operand pairs on the real class, clause-by-clause oracle from the statement",
)
