"""C11 - number and mass fractions are normalised and mutually consistent.

E2 bounded enumeration on the real Material / Substance classes.

  material   every ordered tuple of 1..3 distinct substances from {H2O, NaCl, O2, Ar, CO2} x proportions from
             {1, 2, 0.5, 78.084}^k x common scaling {1, 2, 0.1, 100} x normalisation {number, mass fractions} x
             isotope mode {natural, most abundant}.  The oracle is always computed from the UNscaled proportions,
             so every scaled case checks the scaling invariance.
  duality    for every unscaled number-fraction material: rebuild it from the mass fractions X it reports
             (Norm.MASS_FRACTION) and compare x and X.
  substance  x and X over the atoms of 8 formulas (Norm.NUMBER), also after multiplying the substance by {2, 3, 0.5}.

Oracle (from the statement only): sum x = sum X = 100; number mode: x_i = 100 p_i / sum p, X_i = 100 p_i m_i /
sum p_j m_j; mass mode: X_i = 100 p_i / sum p, x_i = 100 (p_i/m_i) / sum (p_j/m_j); m_i is the component mass the
object itself reports in data_components() (that this mass is right is C10's business).

Not demanded: the 'avg' row; string input of materials (parsing is not part of this statement); zero or negative
proportions; the same substance listed twice; Norm.NUMBER for a Material.
"""
import itertools

from ..common import Shard, failure, outcome, HarnessError
from ..refmodels import materials_ref as R

PROPERTY = "C11"
LEVEL = "exploration"
RULE = ("a case is one (ordered substance tuple, proportion tuple, scaling, normalisation mode, isotope mode); all "
        "cases are distinct by construction; non-trivial = at least two components (fractions are not all 100), "
        "duality cases and substance cases count once each")
ASSUMPTIONS = [
    "the component mass m_i is the one the object reports in data_components() (its correctness is property C10)",
    "x and X agree with the closed formulas to rel 1e-10, sums to abs 1e-9, duality to rel 1e-9",
]

SUBSTANCES = ["H2O", "NaCl", "O2", "Ar", "CO2"]
PROPS = [1, 2, 0.5, 78.084]
SCALES = [1, 2, 0.1, 100]
NWIN = 8                         # quick: k <= 2 complete, k = 3 one window of NWIN; thorough: everything

SUB_FORMULAS = ["H2O", "NaCl", "O2", "Ar", "CO2", "Ca(OH)2", "C2H5OH", "Fe{56+3}2O{-2}3"]
SUB_ATOMS = {           # written by hand: species -> count (the oracle never parses)
    "H2O": {"H": 2, "O": 1}, "NaCl": {"Na": 1, "Cl": 1}, "O2": {"O": 2}, "Ar": {"Ar": 1}, "CO2": {"C": 1, "O": 2},
    "Ca(OH)2": {"Ca": 1, "O": 2, "H": 2}, "C2H5OH": {"C": 2, "H": 6, "O": 1},
    "Fe{56+3}2O{-2}3": {"Fe{56+3}": 2, "O{-2}": 3},
}
SUB_MULT = [None, 2, 3, 0.5]


def init_worker():
    from ..isolation import tables_snapshot
    tables_snapshot()


def _restore():
    from ..isolation import tables_restore
    tables_restore()


def _norm(name):
    from scinumtools.materials import Norm
    return Norm.NUMBER_FRACTION if name == "number" else Norm.MASS_FRACTION


def _expected(props, masses, norm):
    if norm == "number":
        n = list(props)
    else:
        n = [p / m for p, m in zip(props, masses)]
    sn = sum(n)
    sm = sum(a * m for a, m in zip(n, masses))
    return [100 * a / sn for a in n], [100 * a * m / sm for a, m in zip(n, masses)]


def _read(obj, keys):
    """(masses, x, X, sum_x, sum_X) as floats from the public tables, or a ('err', ...) tuple"""
    o = outcome(obj.data_components, quantity=False)
    if o[0] == "err":
        return ("err", o[1] + ":data_components", o[2])
    dc = o[1]
    o = outcome(obj.data_composite, quantity=False)
    if o[0] == "err":
        return ("err", o[1] + ":data_composite", o[2])
    cp = o[1]
    try:
        masses = [float(dc[k].mass) for k in keys]
        x = [float(cp[k].x) for k in keys]
        X = [float(cp[k].X) for k in keys]
        return masses, x, X, float(cp["sum"].x), float(cp["sum"].X)
    except Exception as e:
        return ("err", type(e).__name__ + ":read", str(e)[:200])


def _compare(sub, case, tags, keys, amounts_props, norm, got):
    if got[0] == "err":
        return failure(sub, case, "tables", list(got), tags, "raises:" + got[1])
    masses, x, X, sx, sX = got
    ex, eX = _expected(amounts_props, masses, norm)
    if not R.close(sx, 100, 0, 1e-9) or not R.close(sum(x), 100, 0, 1e-9):
        return failure(sub, case, 100, dict(sum_row=sx, sum_of_rows=sum(x)), tags, "sum-x!=100")
    if not R.close(sX, 100, 0, 1e-9) or not R.close(sum(X), 100, 0, 1e-9):
        return failure(sub, case, 100, dict(sum_row=sX, sum_of_rows=sum(X)), tags, "sum-X!=100")
    for i, k in enumerate(keys):
        if not R.close(x[i], ex[i], 1e-10):
            return failure(sub, case, dict(x=ex), dict(x=x), tags, "x-differs")
        if not R.close(X[i], eX[i], 1e-10):
            return failure(sub, case, dict(X=eX), dict(X=X), tags, "X-differs")
    return None


def check_material(subs, props, scale, norm, natural, duality=False):
    from scinumtools.materials import Material
    case = dict(kind="duality" if duality else "material", subs=list(subs), props=list(props), scale=scale,
                norm=norm, natural=natural)
    tags = ["norm:" + norm, "k=%d" % len(subs), "scale=%s" % scale, "natural" if natural else "abundant"]
    given = {s: p * scale for s, p in zip(subs, props)}
    o = outcome(Material, dict(given), natural=natural, norm_type=_norm(norm))
    if o[0] == "err":
        return failure("fractions", case, "Material constructed", list(o), tags, "raises:" + o[1])
    got = _read(o[1], subs)
    bad = _compare("fractions", case, tags, subs, props, norm, got)
    if bad or not duality:
        return bad
    # duality: the same material specified by the resulting mass fractions
    masses, x, X, sx, sX = got
    o2 = outcome(Material, dict(zip(subs, X)), natural=natural, norm_type=_norm("mass"))
    if o2[0] == "err":
        return failure("duality", case, "Material constructed", list(o2), tags, "raises:" + o2[1])
    got2 = _read(o2[1], subs)
    if got2[0] == "err":
        return failure("duality", case, "tables", list(got2), tags, "raises:" + got2[1])
    _, x2, X2, sx2, sX2 = got2
    for i in range(len(subs)):
        if not R.close(x2[i], x[i], 1e-9):
            return failure("duality", case, dict(x=x), dict(x=x2), tags, "x-differs")
        if not R.close(X2[i], X[i], 1e-9):
            return failure("duality", case, dict(X=X), dict(X=X2), tags, "X-differs")
    return None


def check_substance(formula, mult, natural):
    from scinumtools.materials import Substance
    case = dict(kind="substance", formula=formula, mult=mult, natural=natural)
    atoms = SUB_ATOMS[formula]
    keys = list(atoms)
    tags = ["norm:count", "k=%d" % len(keys), "mult=%s" % mult, "natural" if natural else "abundant"]

    def build():
        s = Substance(formula, natural=natural)
        return s if mult is None else s * mult
    o = outcome(build)
    if o[0] == "err":
        return failure("substance", case, "Substance constructed", list(o), tags, "raises:" + o[1])
    got = _read(o[1], keys)
    return _compare("substance", case, tags, keys, [atoms[k] for k in keys], "number", got)


# ------------------------------------------------------------------------------------------ plan / shards
def _tuples():
    out = []
    for k in (1, 2, 3):
        out.extend(itertools.permutations(SUBSTANCES, k))
    return out


def plan(tier, seed):
    win = None if tier == "thorough" else seed % NWIN
    shards = [("substance",)]
    for t in _tuples():
        for nat in (False, True):
            shards.append(("material", t, nat, win))
    return shards


def _selected(subs, props, scale, norm, nat, win):
    if win is None or len(subs) <= 2:
        return True
    return hash((subs, props, scale, norm, nat)) % NWIN == win


def run_shard(desc):
    sh = Shard(PROPERTY)
    if desc[0] == "substance":
        for f in SUB_FORMULAS:
            for mult in SUB_MULT:
                for nat in (False, True):
                    bad = check_substance(f, mult, nat)
                    sh.evaluations += 1
                    if len(SUB_ATOMS[f]) >= 2:
                        sh.nontrivial += 1
                    sh.count("substance")
                    if bad:
                        sh.fail(bad)
                    _restore()
        sh.sample(dict(kind="substance", formula="Ca(OH)2", mult=0.5))
        return sh
    _, subs, nat, win = desc
    k = len(subs)
    for props in itertools.product(PROPS, repeat=k):
        for scale in SCALES:
            for norm in ("number", "mass"):
                if not _selected(subs, props, scale, norm, nat, win):
                    sh.count("outside-window")
                    continue
                dual = (scale == 1 and norm == "number")
                bad = check_material(subs, props, scale, norm, nat, duality=dual)
                sh.evaluations += 1
                sh.count("material:k=%d:%s" % (k, norm))
                if dual:
                    sh.count("duality")
                if k >= 2:
                    sh.nontrivial += 1
                if bad:
                    sh.fail(bad)
                _restore()
                if k == 3 and scale == 0.1 and len(sh.samples) < 1:
                    sh.sample(dict(subs=list(subs), props=list(props), scale=scale, norm=norm, natural=nat))
    return sh


def replay(rec):
    c = rec["case"]
    try:
        if c["kind"] == "substance":
            return check_substance(c["formula"], c["mult"], c["natural"])
        return check_material(tuple(c["subs"]), tuple(c["props"]), c["scale"], c["norm"], c["natural"],
                              duality=(c["kind"] == "duality" or (c["scale"] == 1 and c["norm"] == "number")))
    finally:
        _restore()


def finish(total, tier, seed):
    h = total.hist
    for key in ("material:k=1:number", "material:k=2:mass", "material:k=3:number", "material:k=3:mass", "duality",
                "substance"):
        if not h.get(key):
            raise HarnessError("vacuous run: no case under " + key)
    full = sum(len(PROPS) ** k * len(list(itertools.permutations(SUBSTANCES, k))) for k in (1, 2, 3)) \
        * len(SCALES) * 2 * 2
    return dict(
        bounds=dict(substances=SUBSTANCES, k="1..3 ordered, distinct", proportions=PROPS, scalings=SCALES,
                    modes=["number", "mass"], isotope_modes=["natural", "abundant"],
                    substance_formulas=SUB_FORMULAS, substance_multipliers=SUB_MULT),
        full_space=full, duality_cases=h.get("duality", 0),
        window="all" if tier == "thorough" else "k<=2 complete + window %d of %d of k=3" % (seed % NWIN, NWIN),
        exhaustive=(tier == "thorough"),
        caps_hit=[] if tier == "thorough" else ["quick executes 1 of %d windows of the k=3 mixtures" % NWIN],
        skipped_outside_window=h.get("outside-window", 0),
    )


MANIFEST = dict(
    text="Bounded-exhaustive enumeration of mixtures on the real Material class: every ordered tuple of 1-3 substances "
         "from {H2O, NaCl, O2, Ar, CO2} x proportions {1, 2, 0.5, 78.084}^k x common scaling {1, 2, 0.1, 100} x both "
         "normalisation modes x both isotope modes (66 880 materials; quick: k<=2 complete plus one seed-selected "
         "window of 8 for k=3). x and X are compared with the closed formulas computed from the UNscaled proportions "
         "(rel 1e-10), sums with 100 (abs 1e-9); every unscaled number-fraction material is rebuilt from its reported "
         "mass fractions and must report the same x and X (rel 1e-9); the same formulas are checked over the atoms of "
         "8 substances and their multiples.",
    note="Trusted: the component masses reported by data_components() (property C10). Not covered: the avg row, "
         "string input of materials, proportions outside the alphabet, more than 3 components.",
    technique="bounded product enumeration executed on the implementation, closed-form oracle and round-trip",
)
