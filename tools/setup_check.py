"""setup_cmd helper: verify the interpreter, the repository import and the external readers used by C19."""
import shutil, sys, os
sys.path.insert(0, os.path.dirname(os.path.dirname(os.path.abspath(__file__))))
from mc import common
common.use_repo()
missing = [t for t in ("gcc", "g++", "gfortran", "rustc", "bash", "python3-vt") if not shutil.which(t)]
if missing:
    print("setup: optional tools missing:", missing)
print("setup ok")
