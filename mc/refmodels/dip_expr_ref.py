"""Reference evaluators for the three DIP expression grammars of C18.

Nothing here parses text: the check generates an AST (nested JSON-able lists), renders it to the expression string
that is handed to the library, and evaluates *the AST* with the functions below.  No code, regular expression or
table of the library is used; the unit factors of the tiny unit alphabet are written out as exact fractions.

AST (numerical)
    ["lit", "<number text>", "<unit>"|None]      a number with an optional unit (a leading '-' is the unary minus)
    ["ref", "<node>"]                            {?node}
    ["flat", [term, ...], [op, ...]]             term op term op ...   op in + - * /   (blank separated)
    ["par", expr]                                ( expr )
    ["fn", name, [expr, ...]]                    exp log10 sin cos (1 argument), pow (2 arguments)

AST (logical)
    ["true"] ["false"] ["bref", node] ["def", node]          true / false / {?node} (bool node) / !{?node}
    ["cmp", op, operand, operand]   operand = ["node", name] | ["num", text, unit] | ["true"] | ["false"] | ["def", n]
    ["not", x]   ["par", x]   ["flat", [x, ...], ["&&"|"||", ...]]

AST (template): list of pieces   ["txt", "<plain text>"] | ["ref", node, slice|None, fmt|None]
    slice = list of [lo, hi] pairs (ints or None); lo == hi means an index
"""
import math
from fractions import Fraction as F


class RefRaise(Exception):
    """the statement demands that the library refuses this input"""


class RefSkip(Exception):
    """the statement is silent about this input: it is not demanded (never a failure)"""


# ----------------------------------------------------------------------------------------------- units
# (factor to SI, (length exponent, time exponent)); '[len]' is the custom unit of the fixed environment (= 2 m)
# dimension vector = (length, time, plane angle): the library counts `rad` as a base dimension of its own.
# deg: the factor is the value PUBLISHED in the unit table of the library (1.7453292e-2, eight digits) - what a unit
# means is the table entry (C03); the exact pi/180 differs from it by 2.7e-8 relative, which is a matter of the table,
# not of the expression solver.
UNITS = {
    None: (F(1), (F(0), F(0), F(0))),
    "m": (F(1), (F(1), F(0), F(0))),
    "cm": (F(1, 100), (F(1), F(0), F(0))),
    "mm": (F(1, 1000), (F(1), F(0), F(0))),
    "km": (F(1000), (F(1), F(0), F(0))),
    "nm": (F(1, 10 ** 9), (F(1), F(0), F(0))),
    "s": (F(1), (F(0), F(1), F(0))),
    "kg": (F(1), None),                       # only used by template nodes (never in arithmetic)
    "[len]": (F(2), (F(1), F(0), F(0))),
    "[hand]": (F(1, 10), (F(1), F(0), F(0))),    # second custom unit, defined in a non-base unit: 10 cm
    "rad": (F(1), (F(0), F(0), F(1))),
    "mrad": (F(1, 1000), (F(0), F(0), F(1))),
    "deg": (F("0.017453292"), (F(0), F(0), F(1))),
}
NODIM = (F(0), F(0), F(0))
ANGLE = (F(0), F(0), F(1))


class custom_units:
    """`with custom_units({"[len]": ("5", "m")}):` - inside the block the custom unit symbols have the given
    definitions (number text, unit of the alphabet) instead of those of the fixed environment; used for sequences of
    documents that define the same symbol differently"""

    def __init__(self, defs):
        self.defs = {sym: (F(num) * UNITS[unit][0], UNITS[unit][1]) for sym, (num, unit) in defs.items()}

    def __enter__(self):
        self.old = {sym: UNITS.get(sym) for sym in self.defs}
        UNITS.update(self.defs)
        return self

    def __exit__(self, *exc):
        for sym, v in self.old.items():
            if v is None:
                UNITS.pop(sym, None)
            else:
                UNITS[sym] = v
        return False


def si_unit(dims):
    """SI unit string for a dimension vector with integral exponents ('' for dimensionless)"""
    if dims[2] != 0:
        raise RefSkip("angle-valued result")
    parts = []
    for sym, e in zip(("m", "s"), dims[:2]):
        if e.denominator != 1:
            raise RefSkip("fractional dimension")
        e = int(e)
        if e == 1:
            parts.append(sym)
        elif e != 0:
            parts.append("%s%d" % (sym, e))
    return "*".join(parts)


# ----------------------------------------------------------------------------------------------- environment
class Env:
    """name -> (kind, python value, unit) of the fixed environment; kind in float int bool str farr iarr"""

    def __init__(self, nodes):
        self.nodes = dict(nodes)

    def num(self, name):
        kind, val, unit = self.nodes[name]
        if kind not in ("float", "int"):
            raise RefSkip("non-numerical node in arithmetic")
        fac, dims = UNITS[unit]
        return F(val) * fac, dims


# ----------------------------------------------------------------------------------------------- numerical
def num_render(a):
    k = a[0]
    if k == "lit":
        return a[1] if a[2] is None else "%s %s" % (a[1], a[2])
    if k == "ref":
        return "{?%s}" % a[1]
    if k == "par":
        return "(" + num_render(a[1]) + ")"
    if k == "fn":
        return a[1] + "(" + ",".join(num_render(x) for x in a[2]) + ")"
    if k == "flat":
        out = num_render(a[1][0])
        for op, t in zip(a[2], a[1][1:]):
            out += " %s %s" % (op, num_render(t))
        return out
    raise ValueError(a)


def num_nops(a):
    """number of operators (binary operators + function applications)"""
    k = a[0]
    if k in ("lit", "ref"):
        return 0
    if k == "par":
        return num_nops(a[1])
    if k == "fn":
        return 1 + sum(num_nops(x) for x in a[2])
    return len(a[2]) + sum(num_nops(t) for t in a[1])


def num_features(a, out=None):
    out = set() if out is None else out
    k = a[0]
    if k == "lit":
        if a[2] in ("[len]", "[hand]"):
            out.add("custom-unit-literal")
        if a[2] == "[hand]":
            out.add("custom-unit-defined-in-non-base-unit")
        if a[2] in ("deg", "rad", "mrad"):
            out.add("angle-unit:" + a[2])
        if a[1].startswith("-"):
            out.add("negative-literal")
    elif k == "ref":
        out.add("reference")
    elif k == "par":
        out.add("parentheses")
        num_features(a[1], out)
    elif k == "fn":
        out.add("fn:" + a[1])
        for x in a[2]:
            num_features(x, out)
    else:
        for t in a[1]:
            num_features(t, out)
        for o in a[2]:
            out.add("op:" + o)
    return out


def _mul(l, r):
    v = l[0] * r[0]
    return (v, tuple(x + y for x, y in zip(l[1], r[1])), abs(l[0]) * r[2] + abs(r[0]) * l[2] + abs(v))


def _div(l, r):
    if r[0] == 0:
        raise RefSkip("division by zero")
    v = l[0] / r[0]
    return (v, tuple(x - y for x, y in zip(l[1], r[1])),
            l[2] / abs(r[0]) + abs(l[0]) * r[2] / (r[0] * r[0]) + abs(v))


def _addsub(l, r, op, notes):
    if l[1] != r[1]:
        if l[1][:2] == r[1][:2]:
            # `0.5 + 1 rad` is accepted by the units module (a number converts to rad), `30 deg + 0.5` is not
            raise RefSkip("angle added to a plain number")
        if tuple(-x for x in l[1]) == r[1]:
            notes.add("add-sub-reciprocal-dimensions")
        else:
            notes.add("add-sub-different-dimensions")
        raise RefRaise("operands of different dimension cannot be added: %s vs %s" % (l[1], r[1]))
    v = l[0] + r[0] if op == "+" else l[0] - r[0]
    return (v, l[1], l[2] + r[2] + abs(v))


def num_eval(a, env, notes=None):
    """-> (exact value in SI as Fraction, dimension vector, absolute error scale).

    The error scale e is propagated to first order (atom: |v|; sum: e_l+e_r+|v|; product: |l|e_r+|r|e_l+|v| ...), the
    library result must agree within TOL*e.  A purely relative tolerance would be wrong for cancellations
    ('2 m - 2 m / {?c} * {?c}' is +-4e-16 in floats, 0 exactly)."""
    notes = set() if notes is None else notes
    k = a[0]
    if k == "lit":
        fac, dims = UNITS[a[2]]
        v = F(a[1]) * fac
        return (v, dims, abs(v))
    if k == "ref":
        v, dims = env.num(a[1])
        return (v, dims, abs(v))
    if k == "par":
        return num_eval(a[1], env, notes)
    if k == "flat":
        vals = [num_eval(t, env, notes) for t in a[1]]
        ops = list(a[2])
        # multiplication and division first, left to right
        terms, tops = [vals[0]], []
        for op, v in zip(ops, vals[1:]):
            if op == "*":
                terms[-1] = _mul(terms[-1], v)
            elif op == "/":
                terms[-1] = _div(terms[-1], v)
            else:
                terms.append(v)
                tops.append(op)
        # then addition and subtraction, left to right
        acc = terms[0]
        for op, v in zip(tops, terms[1:]):
            acc = _addsub(acc, v, op, notes)
        return acc
    if k == "fn":
        name = a[1]
        args = [num_eval(x, env, notes) for x in a[2]]
        if name == "pow":
            b, p = args
            if p[1] != NODIM:
                raise RefSkip("dimensional exponent")
            if b[1][2] != 0:
                raise RefSkip("power of an angle")
            if b[0] == 0:
                raise RefSkip("zero base")
            if p[0].denominator != 1 and b[1] != NODIM:
                raise RefSkip("fractional power of a dimensional value")
            dims = tuple(x * p[0] for x in b[1])
            if p[0].denominator == 1 and abs(p[0]) <= 8:
                v = b[0] ** int(p[0])
            else:
                if b[0] < 0:
                    raise RefSkip("negative base, fractional exponent")
                v = F(math.pow(float(b[0]), float(p[0])))
            e = abs(v) * (abs(p[0]) * b[2] / abs(b[0]) + 1 + F(abs(math.log(abs(float(b[0]))))) * p[2])
            return (v, dims, e)
        x = args[0]
        if name in ("sin", "cos") and x[1] == ANGLE:
            pass        # an angle carries its unit: x[0] is its value in rad
        elif x[1] != NODIM:
            raise RefSkip("dimensional argument of " + name)
        xf = float(x[0])
        if name == "exp":
            if abs(xf) > 300:
                raise RefSkip("overflow")
            f = F(math.exp(xf))
            return (f, NODIM, f * x[2] + 4 * f)
        if name == "log10":
            if x[0] <= 0:
                raise RefSkip("domain")
            f = F(math.log10(xf))
            return (f, NODIM, x[2] / (abs(x[0]) * F(math.log(10))) + abs(f) + 1)
        if name == "sin":
            return (F(math.sin(xf)), NODIM, x[2] + 1)
        if name == "cos":
            return (F(math.cos(xf)), NODIM, x[2] + 1)
    raise ValueError(a)


TOL = F(1, 10 ** 12)


def num_agrees(got, ref, unit):
    """compare a float returned by the library in `unit` with the reference triple"""
    if not isinstance(got, (int, float)) or isinstance(got, bool):
        try:
            got = float(got)
        except Exception:
            return False, None
    if not math.isfinite(got):
        return False, None
    fac = UNITS[unit][0] if unit in UNITS else unit_factor(unit)
    exp = ref[0] / fac
    tol = TOL * ref[2] / fac
    return abs(F(got) - exp) <= tol, float(exp)


def unit_factor(unit):
    """factor of a product unit such as 'm2', 'm*s-1', 'cm2' built from the tiny alphabet"""
    import re
    fac = F(1)
    for part in unit.split("*"):
        m = re.fullmatch(r"(\[len\]|\[hand\]|cm|mm|nm|km|m|s)(-?\d+)?", part)
        if not m:
            raise ValueError(unit)
        fac *= UNITS[m.group(1)][0] ** int(m.group(2) or 1)
    return fac


# ----------------------------------------------------------------------------------------------- logical
STRICT_MIN = F(1, 10 ** 10)
EQ_IN = F(1, 10 ** 7)       # relative offsets <= 1e-7 are "equal to 1e-6 relative" beyond doubt
EQ_OUT = F(99, 10 ** 7)     # relative offsets >= 9.9e-6 are "different" beyond doubt (1e-5 literals, rounded)


def _operand_render(o):
    k = o[0]
    if k == "node":
        return "{?%s}" % o[1]
    if k == "num":
        return o[1] if o[2] is None else "%s %s" % (o[1], o[2])
    if k == "def":
        return "!{?%s}" % o[1]
    return k          # true / false


def log_render(a):
    k = a[0]
    if k in ("true", "false"):
        return k
    if k == "bref":
        return "{?%s}" % a[1]
    if k == "def":
        return "!{?%s}" % a[1]
    if k == "cmp":
        return "%s %s %s" % (_operand_render(a[2]), a[1], _operand_render(a[3]))
    if k == "not":
        return "~" + log_render(a[1])
    if k == "par":
        return "(" + log_render(a[1]) + ")"
    if k == "flat":
        out = log_render(a[1][0])
        for op, t in zip(a[2], a[1][1:]):
            out += " %s %s" % (op, log_render(t))
        return out
    raise ValueError(a)


def log_nops(a):
    k = a[0]
    if k in ("true", "false", "bref"):
        return 0
    if k == "def":
        return 1
    if k == "cmp":
        return 1 + (1 if a[2][0] == "def" else 0) + (1 if a[3][0] == "def" else 0)
    if k == "not":
        return 1 + log_nops(a[1])
    if k == "par":
        return log_nops(a[1])
    return len(a[2]) + sum(log_nops(t) for t in a[1])


def log_features(a, env, out=None):
    """features of the input, used as failure tags"""
    out = set() if out is None else out
    k = a[0]
    if k == "cmp":
        out.add("cmp:" + a[1])
        kinds = []
        for o in (a[2], a[3]):
            if o[0] == "node":
                kinds.append(env.nodes[o[1]][0] + "-node")
            elif o[0] == "num":
                kinds.append("decimal-literal" if any(c in o[1] for c in ".eE") else "integer-literal")
                if o[2] in ("[len]", "[hand]"):
                    out.add("custom-unit-literal")
                if o[2] == "[hand]":
                    out.add("custom-unit-defined-in-non-base-unit")
            else:
                kinds.append("bool-operand")
        out.add("operands:" + "/".join(sorted(kinds)))
        if a[2][0] == "num":
            out.add("literal-on-left")
        if "int-node" in kinds and "decimal-literal" in kinds:
            out.add("int-node-vs-decimal-literal")
        if "int-node" in kinds and any(o[0] == "num" and o[2] is not None for o in (a[2], a[3])):
            out.add("int-node-vs-literal-with-unit")
        try:
            l, r = _operand_value(a[2], env), _operand_value(a[3], env)
            if l[0] == "num" and r[0] == "num" and l[2] == r[2]:
                if l[1] == 0 and r[1] == 0:
                    out.add("both-operands-zero")
                elif l[1] == 0 or r[1] == 0:
                    out.add("one-operand-zero")
                if l[1] < 0 or r[1] < 0:
                    out.add("negative-operand")
            if l[0] == "num" and r[0] == "num" and l[2] == r[2] and max(abs(l[1]), abs(r[1])) > 0:
                rel = abs(l[1] - r[1]) / max(abs(l[1]), abs(r[1]))
                out.add("offset:0" if rel == 0 else "offset:<=1e-7" if rel <= EQ_IN else
                        "offset:>=1e-5" if rel >= EQ_OUT else "offset:ambiguous")
                if l[3] != r[3]:
                    out.add("convertible-units")
        except (RefSkip, KeyError):
            pass
        if "str-node" in kinds:
            out.add("string-operands")
        if "bool-node" in kinds or "bool-operand" in kinds:
            out.add("bool-operands")
    elif k == "not":
        inner = a[1]
        while inner[0] == "par":
            inner = inner[1]
        if inner[0] == "cmp":
            out.add("negated-comparison:" + inner[1])
        elif inner[0] == "flat":
            out.add("negated-group")
        log_features(a[1], env, out)
    elif k == "par":
        out.add("parentheses")
        log_features(a[1], env, out)
    elif k == "flat":
        for o in a[2]:
            out.add("op:" + o)
        for t in a[1]:
            log_features(t, env, out)
    elif k == "def":
        out.add("defined-test")
    return out


def _operand_value(o, env):
    """-> ('num', value SI, dims, unit) | ('str', s) | ('bool', b)"""
    k = o[0]
    if k == "true":
        return ("bool", True)
    if k == "false":
        return ("bool", False)
    if k == "def":
        return ("bool", o[1] in env.nodes)
    if k == "num":
        fac, dims = UNITS[o[2]]
        return ("num", F(o[1]) * fac, dims, o[2])
    kind, val, unit = env.nodes[o[1]]
    if kind in ("float", "int"):
        fac, dims = UNITS[unit]
        return ("num", F(val) * fac, dims, unit)
    if kind == "str":
        return ("str", val)
    if kind == "bool":
        return ("bool", val)
    raise RefSkip("array operand")


def log_eval(a, env):
    """truth value demanded by the documentation: comparison, then negation, then &&, then ||; parentheses first"""
    k = a[0]
    if k == "true":
        return True
    if k == "false":
        return False
    if k == "bref":
        kind, val, _ = env.nodes[a[1]]
        if kind != "bool":
            raise RefSkip("non-boolean node used as truth value")
        return val
    if k == "def":
        return a[1] in env.nodes
    if k == "not":
        return not log_eval(a[1], env)
    if k == "par":
        return log_eval(a[1], env)
    if k == "flat":
        vals = [log_eval(t, env) for t in a[1]]
        groups = [[vals[0]]]
        for op, v in zip(a[2], vals[1:]):
            if op == "&&":
                groups[-1].append(v)
            else:
                groups.append([v])
        return any(all(g) for g in groups)
    if k == "cmp":
        op = a[1]
        l, r = _operand_value(a[2], env), _operand_value(a[3], env)
        if l[0] != r[0]:
            raise RefSkip("operands of different kind")
        if l[0] in ("str", "bool"):
            if op == "==":
                return l[1] == r[1]
            if op == "!=":
                return l[1] != r[1]
            raise RefSkip("ordering of non-numbers")
        if l[2] != r[2]:
            raise RefSkip("comparison across dimensions")     # docs and code disagree; statement silent
        lv, rv = l[1], r[1]
        big = max(abs(lv), abs(rv))
        if big == 0:
            # both operands are exactly zero (in whatever unit: the conversion of an exact zero is an exact zero):
            # equal under every reading of the tolerance, and neither smaller nor greater
            return op in ("==", "<=", ">=")
        rel = abs(lv - rv) / big
        if rel <= EQ_IN:
            equal = True
        elif rel >= EQ_OUT:
            equal = False
        else:
            equal = None
        if op in ("<", ">"):
            # strict comparisons are exact ("A is smaller than B", no precision in the documentation): demanded for
            # every difference far above float rounding (>= 1e-10 relative), and for identical values written in
            # the same unit; in between the rounding of the unit conversion decides
            if rel >= STRICT_MIN:
                return lv < rv if op == "<" else lv > rv
            if rel == 0 and l[3] == r[3]:
                return False
            raise RefSkip("strict comparison of values equal up to rounding")
        if equal is None:
            raise RefSkip("offset inside the band where 'equal to 1e-6 relative' is ambiguous")
        if op == "==":
            return equal
        if op == "!=":
            return not equal
        if op == "<=":
            return equal or lv < rv
        if op == ">=":
            return equal or lv > rv
        # strict comparisons: demanded only for clearly different values, or identical values written in the same
        # unit (no conversion involved, so no rounding can decide the outcome)
        if equal:
            if rel == 0 and l[3] == r[3]:
                return False
            raise RefSkip("strict comparison of values equal within the tolerance")
        return lv < rv if op == "<" else lv > rv
    raise ValueError(a)


# ----------------------------------------------------------------------------------------------- templates
def tpl_render(pieces):
    out = ""
    for p in pieces:
        if p[0] == "txt":
            out += p[1]
        else:
            s = "{{?%s}" % p[1]
            if p[2]:
                s += "[" + ",".join(_slice_text(lo, hi) for lo, hi in p[2]) + "]"
            if p[3]:
                s += ":" + p[3]
            out += s + "}"
    return out


def _slice_text(lo, hi):
    if lo is not None and lo == hi:
        return str(lo)
    return "%s:%s" % ("" if lo is None else lo, "" if hi is None else hi)


def _apply_slice(val, sl):
    for lo, hi in sl:
        if lo is not None and lo == hi:
            val = val[lo]
        else:
            if isinstance(val, list):
                raise RefSkip("sub-array output (string form not specified)")
            val = val[lo:hi]
    return val


def tpl_eval(pieces, env):
    """the text Python's format() would produce; RefSkip where Python itself refuses the format"""
    out = ""
    for p in pieces:
        if p[0] == "txt":
            out += p[1]
            continue
        kind, val, _ = env.nodes[p[1]]
        element = False
        if p[2]:
            element = isinstance(val, list)
            val = _apply_slice(val, p[2])
        if isinstance(val, list):
            raise RefSkip("whole-array output (string form not specified)")
        try:
            out += format(val, p[3] or "")
        except (ValueError, TypeError) as e:
            if element:
                raise RefSkip("format refused by Python for an array element (numpy scalar types differ)")
            # formatted "as Python's format() would": where format() raises, the template has to fail as well
            raise RefRaise("format(%r, %r) raises %s" % (val, p[3], type(e).__name__))
    return out
