"""C19 - exported configuration files carry the same values as the environment (translation validation).

Every parameter of the bounded space

    data type/width  x  shape {scalar,[3],[2,3],[2,2,2]}  x  value alphabet  x  unit on/off  x  name kind
    x  back-end {DIP, JSON, YAML, TOML, Bash, C, C++, Fortran, Rust}  x  option set of the back-end

is put into a DIP source, parsed by the real DIP parser, exported by the real exporter and the exported text is read
back by the format's own reader (gcc, g++, gfortran, rustc, bash, json, yaml, tomllib, DIP re-parse; see
mc/refmodels/export_readers.py).  Compared per parameter against the *environment* (env.data(Format.TYPE)):
symbol present under the documented name mapping, declared type / width / signedness, shape, every element by index.

Many parameters share one program (one family = value class x rank per program).  When a program does not compile /
load / the exporter raises, the parameter list is split recursively (delta debugging) until single parameters are
isolated; every isolated parameter is a disagreement of its own.

The expected declared type / width / signedness is the NODE's (keyword, precision, unsigned), the expected value and
unit are those of the node's value object - so a value object that lost a type attribute on the way is observed.
The expectation is taken from the environment as parsed, BEFORE any exporter is constructed.

Histories of exports ("each configuration export" of one environment): every (back-end, option set) is also run after
every single earlier export (back-end x option set, 22 x 22 ordered pairs; thorough: also after every ordered pair of
earlier back-ends) made from the SAME environment object, for every parameter family.  Text identical to the export of
a freshly parsed environment (read back in the batch phase) needs no second read-back; text that differs is read back
and compared with the environment as parsed.

Histories of selections ("selecting by query or tags exports exactly the selected parameters"): on ONE live exporter
object every sequence of 1..2 (thorough: 1..3) earlier select() calls out of 8 forms (no argument, query '*', 'box.*',
'grp.*', a single path, tags ['sel'], tags ['other'], query + tags), optionally each followed by parse(), then every
last form, for every back-end; what is exported must be the documented selection of the LAST call alone.

Not demanded (left out of the alphabet, see DESIGN.md "Not demanded"):
  * Fortran signedness: unsigned values above the signed maximum of the width are not exported to Fortran;
  * Rust f128 (documented as f64); C/C++ float128 <-> `long double` (documented mapping, whatever its storage size);
  * none: only where the documentation defines the export (C/C++ #define -> empty definition, Bash -> empty variable,
    JSON/YAML -> null) plus DIP text (none is DIP's own literal) plus numeric constants in C/C++/Fortran/Rust (where
    the exporter writes the Python token `None`: reported).  bool/str none constants and TOML none are skipped (the
    documentation examples show `.false.`/`false` and an omitted key).
  * the scalar empty string (Environment.data() itself fails on it - a parser matter, C13/C14), arrays as C macros, several tag selectors at once, Fortran free-form line length
    (-ffree-line-length-none is passed), compiler warnings (-w), the Bash `export` attribute itself.
  * Fortran character values are compared modulo trailing blanks (character entities are blank padded and Fortran's
    own == ignores them), but the declared character length must hold every element completely ("truncated" otherwise).
  * strings are compared as UTF-8 text (the exported text is stored as UTF-8; bytes read back from C/C++/Fortran/
    Rust/Bash are decoded strictly enough that any wrong byte shows as a different string).  String arrays containing
    a double quote, a backslash before a quote or a trailing backslash cannot be written in DIP (parser matters).
  * float32 targets: equality after rounding to single precision (1 ulp slack for double rounding of the literal).
"""
import os
import re
import json
import shutil
import tempfile
import itertools

from ..common import Shard, failure, outcome, HarnessError
from .. import isolation, findings
from ..refmodels import export_readers as rd
from ..refmodels.export_readers import Item

PROPERTY = "C19"
LEVEL = "translation_validation"
RULE = ("case = (back-end, option set, parameter) with parameter = (dtype/width, shape, value fill, unit, name kind); "
        "each case is exported inside a batch of its family, the batch is read back by the format's own "
        "reader/compiler and the parameter is compared by symbol, declared type/width/sign, shape and every element "
        "by index; distinct = distinct (back-end, option set, parameter spec); non-trivial = the read-back produced a "
        "symbol to compare (not a skipped / unparsable input).  Additional cases: selections (query/tags) x back-end, "
        "ordered pairs of representative parameters x back-end (text compositionality for compiled back-ends, "
        "read-back otherwise), parse() called twice.  Histories: case = (earlier exports [(back-end, option set)] made "
        "from the same environment object, back-end, option set, parameter): all 22 x 22 ordered (earlier, later) "
        "option-set pairs x every family (thorough: also two earlier exports, 9 x 9 back-ends); expectation = the "
        "environment as parsed; an export whose text equals the fresh export's text (read back in the batch phase) is "
        "decided by that read-back, any other text is read back itself.  Histories of selections: case = "
        "(back-end, earlier select() calls [form, ...] on ONE exporter object, parse() after each earlier select "
        "yes/no, last select form, selected parameter): 8 forms (select(), query '*', 'box.*', 'grp.*', a path, "
        "tags ['sel'], tags ['other'], query+tags) x every sequence of 1..2 (thorough 1..3) earlier forms x 8 last "
        "forms x 9 back-ends; expectation = documented selection of the last call alone; text equal to that of a new "
        "exporter with the single last select (read back in the same shard) is decided by that read-back, any other "
        "text is read back itself.")
ASSUMPTIONS = [
    "gcc/g++ 12, gfortran 12, rustc, bash 5, python json/yaml/tomllib are the reference semantics of the formats",
    "printer programs dispatch on the declared type inside the target language (_Generic, templates, generic "
    "interfaces, traits); they are generated from (symbol, rank, mode) only",
    "expected values are taken from the parsed environment (env.data(Format.TYPE)), not from the DIP source text",
    "compilers run with warnings disabled and -ffree-line-length-none; a compile error, not a warning, is a failure",
    "float32 targets are compared after rounding to single precision with 1 ulp slack",
    "a declaration line of C/C++/Fortran/Rust means the same next to any other declaration line (used to reduce "
    "ordered pairs whose text is the exact composition of the single exports)",
    "the reader's verdict depends on the exported text only: an export made after earlier exports whose text (both "
    "parse() calls) is identical to that of a freshly parsed environment with the same parameter list is decided by "
    "the read-back of the latter in the batch phase",
    "earlier exports of a history are made without select() (the exporter then holds the environment's own objects)",
    "select() called without an argument means no query / no tags (the documented defaults), also when an earlier "
    "call on the same exporter gave one: the selection exported is that of the last call alone",
]

BACKENDS = ["dip", "json", "yaml", "toml", "bash", "c", "cpp", "fortran", "rust"]
IMAX = {16: 32767, 32: 2147483647, 64: 9223372036854775807}
UMAX = {16: 65535, 32: 4294967295, 64: 18446744073709551615}
DTYPES = ["bool", "int16", "int32", "int64", "uint16", "uint32", "uint64", "float32", "float64", "float128", "str"]
SHAPES = [None, [3], [2, 3], [2, 2, 2]]
FILLS = {(3,): [0, 3, 6], (2, 3): [0, 3], (2, 2, 2): [0, 1]}
UNIT = "cm"
ORIGINS = ["modsame", "modother", "modunit", "declared"]


# ---------------------------------------------------------------------------------------------- alphabet
# backslash followed by each character that is special in some back-end's quoting rules (bash double quotes: \ " $ `;
# C/C++/Rust/JSON/TOML/YAML escapes: \ " n t 0 x u '; DIP: \" \'), backslash at the end, command / arithmetic
# substitution, a control character.  (value, DIP literal or None = single-quoted, usable as array element)
# DIP decodes \" and \' inside any value and ends a quoted value at an escaped quote, so a trailing backslash is
# written unquoted and backslash+quote with a doubled backslash; neither can be an array element (parser matters).
ESCAPES = [("\\\\server\\data", None, True), ("^cost\\$[0-9]+", None, True), ("C:\\sim\\out\\", "C:\\sim\\out\\", False),
           ("a\\\"b", "'a\\\\\"b'", False), ("a\\'b", "\"a\\\\'b\"", False), ("a\\`b", None, True), ("a\\nb", None, True), ("a\\tb", None, True),
           ("\\x41", None, True), ("\\u0041", None, True), ("\\0", None, True), ("\\", "\\", False),
           ("\\\\", "\\\\", False), ("a\\\\", "a\\\\", False), ("$(echo x)", None, True), ("`echo x`", None, True),
           ("$((1+1))", None, True), ("\\{z}", None, True), ("a\\ b", None, True), ("%\\n", None, True),
           ("a\\$b\\`c\\\\d", None, True), ("a\tb", None, True)]
# non-ASCII text: Latin-1, other BMP scripts and symbols, astral plane (compared as UTF-8 bytes after read-back)
UNICODE = ["Gr\u00f6\u00dfe in \u00b5m", "\u00c5ngstr\u00f6m", "\u00e9", "Dvo\u0159\u00e1k", "\u03bb=5", "\u6e29\u5ea6",
           "\u20ac", "\U0001f600", "x\U0001d6fcy", "na\u00efve, caf\u00e9", "a\u00a0b"]
# string contents that coincide with what the exporters / target languages use as separators, delimiters, comment or
# expansion characters (comma+blank joins array literals; ; [ ] ( ) = : # ' { } $ ` \ % & ! * | - and blanks at either
# end).  All of them can be written in DIP (single-quoted scalar, JSON element) - probed on the parser.
DELIMS = ["alpha, beta, gamma", "a,b", "a;b", "x[1]", "[x], [y]", "(y)", "f(1, 2)", "k=v", "k = v", "a:b", "a: b",
          "n#1", "n #1", "it's", "'", " lead", "trail ", "a  b", "{z}", "$x", "${x}", "a`b", "a\\b", "%s", "a&b", "!x",
          "a*b", "a|b", "-x", "don't, can't"]
def _cls(dtype):
    return ("bool" if dtype == "bool" else "str" if dtype == "str" else "float" if dtype.startswith("float")
            else "uint" if dtype.startswith("uint") else "sint")


def _width(dtype):
    m = re.search(r"(\d+)$", dtype)
    return int(m.group(1)) if m else None


def _scalars(dtype):
    c, w = _cls(dtype), _width(dtype)
    if c == "bool":
        return [True, False]
    if c == "sint":
        return [0, -7, IMAX[w]]
    if c == "uint":
        return [0, 7, IMAX[w], UMAX[w]]
    if c == "float":
        return [0.0, -1.5, 12.0, 1e-7, 2.5e20]
    return ["a", "two words"]


def _pool(dtype):
    c, w = _cls(dtype), _width(dtype)
    if c == "bool":
        return [True, False, False, True, True, False, True, False, True]
    if c == "sint":
        return [0, -7, IMAX[w], 1, 5, -1, 42, 100, -32000]
    if c == "uint":
        # uint64 maximum inside an array cannot be parsed (numpy int64 cast in the DIP parser): parser matter
        return [0, 7, IMAX[w], 1, 5, 3, 42, 100, UMAX[w] if w < 64 else 1000]
    if c == "float":
        return [0.0, -1.5, 12.0, 1e-7, 2.5e20, 3.0, 0.1, -273.15, 65536.5]
    return ["a", "two words", "", "b", "x y", "c", "dd", "e", "fgh"]


def _nest(flat, shape):
    if len(shape) == 1:
        return list(flat[:shape[0]])
    step = 1
    for s in shape[1:]:
        step *= s
    return [_nest(flat[i * step:(i + 1) * step], shape[1:]) for i in range(shape[0])]


def _flat(v):
    if isinstance(v, (list, tuple)):
        out = []
        for e in v:
            out.extend(_flat(e))
        return out
    return [v]


def _shape(v):
    if not isinstance(v, (list, tuple)):
        return None
    if not v:
        return [0]
    sub = _shape(v[0])
    return [len(v)] + (sub or [])


def _colmajor(flat, shape):
    """by-index (row-major) read-out of an array whose storage was filled in column-major order with `flat`"""
    import numpy as np
    idx = np.arange(len(flat)).reshape(shape, order="F").flatten(order="C")
    return [flat[i] for i in idx]


_BASE = None


def base_params():
    """The complete bounded parameter space (names are assigned later).  Deterministic order."""
    global _BASE
    if _BASE is not None:
        return _BASE
    out = []

    def add(dtype, shape, value, unit, family):
        out.append(dict(idx=len(out), dtype=dtype, shape=shape, value=value, unit=unit, family=family))

    for dtype in DTYPES:
        c = _cls(dtype)
        units = [None, UNIT] if c in ("sint", "uint", "float") else [None]
        for shape in SHAPES:
            rank = 0 if shape is None else len(shape)
            fam = "%s-r%d" % (c, rank)
            for unit in units:
                if shape is None:
                    for v in _scalars(dtype):
                        add(dtype, None, v, unit, fam)
                else:
                    n = 1
                    for s in shape:
                        n *= s
                    pool = _pool(dtype)
                    for off in FILLS[tuple(shape)]:
                        flat = [pool[(off + i) % len(pool)] for i in range(n)]
                        add(dtype, shape, _nest(flat, shape), unit, fam)
                    if c == "str":
                        eq = ["a", "b", "c", "d", "e", "f", "g", "h"][:n]
                        add(dtype, shape, _nest(eq, shape), unit, fam)
    for dtype in ("bool", "int32", "float64", "str", "uint64", "float128"):
        add(dtype, None, None, None, "none")
    add("str", None, 'q"uote', None, "quote")
    add("str", None, 'say "hi" now', None, "quote")
    # (a string array with a quote cannot be written in DIP: the array parser does not accept the JSON escape)
    # strings whose content looks like the separators / delimiters the back-ends write themselves
    L = len(DELIMS)
    for d in DELIMS:
        add("str", None, d, None, "delim-r0")
    for d in DELIMS:
        add("str", [3], ["x", d, "yz"], None, "delim-r1")      # the delimiter string is the longest element
    for off in range(0, L, 6):
        add("str", [2, 3], _nest([DELIMS[(off + i) % L] for i in range(6)], [2, 3]), None, "delim-r2")
    for off in range(0, L, 8):
        add("str", [2, 2, 2], _nest([DELIMS[(off + i) % L] for i in range(8)], [2, 2, 2]), None, "delim-r3")
    for fam, pool, lits in (("escape", [e[0] for e in ESCAPES if e[2]], None), ("unicode", UNICODE, None)):
        src = ESCAPES if fam == "escape" else [(u, None, True) for u in UNICODE]
        for v, lit, _ in src:
            add("str", None, v, None, fam + "-r0")
            if lit is not None:
                out[-1]["dip"] = lit
        L = len(pool)
        for d in pool:
            add("str", [3], ["x", d, "yz"], None, fam + "-r1")
        for off in range(0, L, 6):
            add("str", [2, 3], _nest([pool[(off + i) % L] for i in range(6)], [2, 3]), None, fam + "-r2")
        for off in range(0, L, 8):
            add("str", [2, 2, 2], _nest([pool[(off + i) % L] for i in range(8)], [2, 2, 2]), None, fam + "-r3")
    # how the parameter got its value: defined (everything above); defined then modified with the same value /
    # another value / a value in another unit; declared first and assigned later.  Every dtype x width, scalar + [2,3].
    for origin in ORIGINS:
        for dtype in DTYPES:
            c, w = _cls(dtype), _width(dtype)
            if origin == "modunit" and c != "float":
                # bool/str carry no unit; an *integer* node modified with a value in another unit holds a Python float
                # in the environment (300.0 in an int16 node - conversion goes through float(); a C14 matter), so the
                # statement gives no expected export for it: not demanded here
                continue
            pool = _pool(dtype)
            if origin == "modunit":
                # written in metres, stored in the centimetres of the definition (exact for these values)
                scal = [3] if c != "float" else [1.5]
                arrs = [[[1, 2, 3], [4, 5, 6]]] if c != "float" else [[[0.5, -1.5, 12.0], [3.0, 2.5, 7.0]]]
            else:
                scal = ([True] if c == "bool" else [IMAX[w]] if c == "sint" else [IMAX[w], UMAX[w]] if c == "uint"
                        else [1e-7] if c == "float" else ["two words"])
                arrs = [_nest([pool[(off + i) % len(pool)] for i in range(6)], [2, 3]) for off in ([0, 3] if c == "uint" else [3])]
            for v in scal:
                add(dtype, None, v, UNIT if origin == "modunit" else None, "origin-" + origin)
                out[-1]["origin"] = origin
            for v in arrs:
                add(dtype, [2, 3], v, UNIT if origin == "modunit" else None, "origin-" + origin)
                out[-1]["origin"] = origin
    for p in out:
        if p["shape"] and len(p["shape"]) >= 2:
            f = _flat(p["value"])
            if _colmajor(f, p["shape"]) == f:
                raise HarnessError("array of %s %s cannot observe element order" % (p["dtype"], p["shape"]))
    _BASE = out
    return out


def families():
    seen = []
    for p in base_params():
        if p["family"] not in seen:
            seen.append(p["family"])
    return seen


NAMEKINDS = 3


def named(p, kind):
    q = dict(p)
    base = "p%d" % p["idx"]
    q["name"] = [base, "grp." + base, "box.cellSize." + base][kind]
    q["tags"] = []
    q["id"] = "%s/k%d" % (base, kind)
    q.pop("idx")
    return q


def _literal(s, v):
    c = _cls(s["dtype"])
    if v is None:
        return "none"
    if s["shape"] is None:
        return ("true" if v else "false") if c == "bool" else ("'" + v + "'") if c == "str" else repr(v)
    txt = json.dumps(v, separators=(",", ":"), ensure_ascii=False)
    return "'" + txt + "'" if c == "str" else txt


def _other_value(s):
    """a value of the same type and shape that differs from the final one in every element"""
    c = _cls(s["dtype"])

    def other(x):
        return (not x) if c == "bool" else (x + "!") if c == "str" else (1.25 if x != 1.25 else 2.5) if c == "float" \
            else (4 if x != 4 else 6)
    if s["shape"] is None:
        return other(s["value"])
    return _nest([other(x) for x in _flat(s["value"])], s["shape"])


def dip_source(specs):
    lines = []
    for s in specs:
        dims = "" if s["shape"] is None else "[" + ",".join(str(x) for x in s["shape"]) + "]"
        txt = s["dip"] if s.get("dip") is not None and s["value"] is not None else _literal(s, s["value"])
        unit = (" " + s["unit"]) if s.get("unit") else ""
        head = "%s %s%s" % (s["name"], s["dtype"], dims)
        origin = s.get("origin")
        if origin is None:
            lines.append("%s = %s%s" % (head, txt, unit))
        elif origin == "modsame":
            lines.append("%s = %s%s" % (head, txt, unit))
            lines.append("%s = %s%s" % (s["name"], txt, unit))
        elif origin == "modother":
            lines.append("%s = %s%s" % (head, _literal(s, _other_value(s)), unit))
            lines.append("%s = %s%s" % (s["name"], txt, unit))
        elif origin == "modunit":
            # defined in the unit of the parameter, modified with a value written in metres
            lines.append("%s = %s%s" % (head, _literal(s, _other_value(s)), unit))
            lines.append("%s = %s m" % (s["name"], txt))
        elif origin == "declared":
            lines.append(head + unit)
            lines.append("%s = %s%s" % (s["name"], txt, unit))
        else:
            raise HarnessError("unknown origin %r" % origin)
        if s.get("tags"):
            lines.append("  !tags " + json.dumps(s["tags"]))
    return "\n".join(lines) + "\n"


# ---------------------------------------------------------------------------------------------- option sets
def optsets(backend):
    o = []
    if backend == "c":
        o = [dict(id="const"), dict(id="define-scalars", define="scalars", parse=dict(guard="MY_GUARD_H")),
             dict(id="norename", ctor=dict(rename=False), flat=True)]
    elif backend == "cpp":
        o = [dict(id="constexpr"), dict(id="const-all", const="all"), dict(id="define-scalars", define="scalars"),
             dict(id="mixed", define="mix", const="mix", parse=dict(guard="MY_GUARD_H")),
             dict(id="norename", ctor=dict(rename=False), flat=True)]
    elif backend == "fortran":
        o = [dict(id="default"), dict(id="norename-module", ctor=dict(rename=False), parse=dict(module="CfgMod"), flat=True)]
    elif backend == "rust":
        o = [dict(id="default"), dict(id="norename", ctor=dict(rename=False), flat=True)]
    elif backend == "bash":
        o = [dict(id="export"), dict(id="noexport", parse=dict(export=False)),
             dict(id="norename", ctor=dict(rename=False), flat=True)]
    elif backend in ("json", "yaml", "toml"):
        o = [dict(id="units"), dict(id="nounits", parse=dict(units=False))]
    elif backend == "dip":
        o = [dict(id="default")]
    return o


def optset(backend, oid):
    for o in optsets(backend):
        if o["id"] == oid:
            return o
    raise HarnessError("unknown option set %s/%s" % (backend, oid))


def _exporter(backend):
    from scinumtools.dip import config as cfg
    return dict(dip=cfg.ExportConfig, json=cfg.ExportConfigJSON, yaml=cfg.ExportConfigYAML, toml=cfg.ExportConfigTOML,
                bash=cfg.ExportConfigBash, c=cfg.ExportConfigC, cpp=cfg.ExportConfigCPP,
                fortran=cfg.ExportConfigFortran, rust=cfg.ExportConfigRust)[backend]


def skip_reason(backend, opt, s):
    """inputs for which the statement / documentation define no expected outcome (not demanded)"""
    c = _cls(s["dtype"])
    if s["value"] is None:
        if backend == "toml":
            return "none-in-toml"
        if backend in ("c", "cpp", "fortran", "rust") and c in ("bool", "str"):
            mode = _mode(backend, opt, s)
            if mode != "define":
                return "none-bool/str-constant"
    if backend == "fortran" and c == "uint":
        w = _width(s["dtype"])
        if any(x is not None and x > IMAX[w] for x in _flat(s["value"])):
            return "fortran-above-signed-max"
    return None


def _mode(backend, opt, s):
    """how the parameter is expected to be declared under the option set"""
    if backend == "bash":
        return "var"
    if backend not in ("c", "cpp"):
        return "const" if backend in ("fortran", "rust") else "data"
    rank0 = s["shape"] is None
    d = opt.get("define")
    if d == "scalars" and rank0:
        return "define"
    if d == "mix":
        k = int(re.search(r"(\d+)", s["id"]).group(1)) % 3
        if k == 0 and rank0:
            return "define"
        return "const" if k == 1 else "constexpr"
    if opt.get("const") == "all":
        return "const"
    return "constexpr" if backend == "cpp" else "const"


# ---------------------------------------------------------------------------------------------- selection model
def select_model(specs, sel):
    """documented selection: '*' all (full names); 'p.*' children of p (prefix stripped); a path (last component);
    tags: nodes carrying the tag.  Returns [(spec, exported key)] in environment order."""
    if not sel:
        return [(s, s["name"]) for s in specs]
    q, tags = sel.get("query"), sel.get("tags")
    out = []
    for s in specs:
        n = s["name"]
        if q is None or q == "*":
            key = n
        elif q.endswith(".*"):
            if not n.startswith(q[:-1]):
                continue
            key = n[len(q) - 1:]
        else:
            if n != q:
                continue
            key = n.split(".")[-1]
        if tags and not (set(tags) & set(s.get("tags") or [])):
            continue
        out.append((s, key))
    return out


def symbol(backend, opt, key):
    """documented name mapping"""
    if backend in ("c", "cpp", "fortran", "rust", "bash") and (opt.get("ctor") or {}).get("rename", True):
        return key.upper().replace(".", "_")
    return key


# ---------------------------------------------------------------------------------------------- scratch
def _scratch():
    root = "/dev/shm/dip-E-%d" % os.getpid()
    os.makedirs(root, exist_ok=True)
    return root, tempfile.mkdtemp(prefix="case-", dir=root)


def _cleanup(root, d):
    shutil.rmtree(d, ignore_errors=True)
    try:
        os.rmdir(root)
    except OSError:
        pass


# ---------------------------------------------------------------------------------------------- expected values
def _expected(node):
    """declared type / width / signedness of the *node* (keyword, precision, unsigned), value and unit of its value"""
    kw = getattr(node, "keyword", None)
    if kw == "bool":
        kind, width, signed = "bool", None, None
    elif kw == "int":
        kind, width, signed = "int", int(node.precision), not node.unsigned
    elif kw == "float":
        kind, width, signed = "float", int(node.precision), None
    elif kw == "str":
        kind, width, signed = "str", None, None
    else:
        raise HarnessError("unexpected node %r" % (node,))
    t = node.value
    if t is None:
        raise HarnessError("node %s has no value" % node.name)
    v = t.value
    return dict(kind=kind, width=width, signed=signed, unit=getattr(t, "unit", None), shape=_shape(v),
                flat=_flat(v) if v is not None else None, none=v is None)


def _ok32(o, e):
    import numpy as np
    if not isinstance(o, float):
        return False
    with np.errstate(all="ignore"):
        f = np.float32(e)
        cands = {float(f), float(np.nextafter(f, np.float32(np.inf))), float(np.nextafter(f, np.float32(-np.inf)))}
    return o in cands


def _eq(kind, o, e, single=False):
    if kind == "bool":
        return isinstance(o, bool) and o == e
    if kind == "int":
        return isinstance(o, int) and not isinstance(o, bool) and o == e
    if kind == "float":
        if single:
            return _ok32(o, e)
        return isinstance(o, float) and o == e
    return isinstance(o, str) and o == e


def _value_behaviour(exp, oflat, single):
    """classify an element mismatch: which re-interpretation of the expected elements explains the observation"""
    kind, eflat, shape = exp["kind"], exp["flat"], exp["shape"]
    if len(oflat) != len(eflat):
        return "wrong-shape"
    if kind == "str" and all(isinstance(o, str) and e.startswith(o) for o, e in zip(oflat, eflat)):
        return "truncated"
    transforms = [("", eflat)]
    if shape and len(shape) >= 2:
        transforms.append(("column-major-fill", _colmajor(eflat, shape)))
    for tname, ef in transforms:
        for rname, sgl in (("", single), ("single-precision-literal", True)):
            if rname and (kind != "float" or single):
                continue
            if all(_eq(kind, o, e, sgl) for o, e in zip(oflat, ef)):
                name = "+".join(x for x in (tname, rname) if x)
                if name:
                    return name
    return "wrong-value"


def compare(backend, opt, spec, exp, mode, sym, obs):
    """-> None (agrees) or (behaviour, expected-description, observed-description)"""
    o = obs.get(sym)
    want = dict(symbol=sym, kind=exp["kind"], width=exp["width"], signed=exp["signed"], shape=exp["shape"],
                values=exp["flat"] if exp["shape"] else (exp["flat"][0] if exp["flat"] else None))
    if o is None:
        return ("symbol-missing", want, sorted(obs)[:12])
    got = dict(symbol=sym, type=o.get("ctype"), kind=o.get("kind"), width=o.get("width"), signed=o.get("signed"),
               shape=o.get("shape"), values=o.get("values"))
    kind = exp["kind"]

    # ---- Bash: no types; scalar / indexed array / associative array with "i,j" keys (documented) ------------
    if backend == "bash":
        got = dict(symbol=sym, structure=o["struct"], items=o["items"])
        rank = 0 if exp["shape"] is None else len(exp["shape"])
        st = "scalar" if rank == 0 else "indexed" if rank == 1 else "assoc"
        want["structure"] = st
        if o["struct"] != st:
            return ("wrong-structure", want, got)
        if exp["none"]:
            return None if o["items"] == {"": ""} else ("wrong-value", want, got)
        if rank == 0:
            keys = [""]
        else:
            keys = [",".join(str(i) for i in idx) for idx in itertools.product(*[range(n) for n in exp["shape"]])]
        if set(o["items"]) != set(keys):
            return ("wrong-shape", want, got)
        for k, e in zip(keys, exp["flat"]):
            t = o["items"][k]
            if kind == "bool":
                ok = t == ("0" if e else "-1")            # documented: 0 is true, -1 is false
            elif kind == "int":
                ok = bool(re.fullmatch(r"-?\d+", t)) and int(t) == e
            elif kind == "float":
                try:
                    ok = float(t) == e
                except ValueError:
                    ok = False
            else:
                ok = t == e
            if not ok:
                return ("wrong-value", want, got)
        return None

    # ---- C / C++ macro ------------------------------------------------------------------------------------------
    if mode == "define":
        if exp["none"]:
            return None if o.get("macro") == "" else ("wrong-value", want, dict(got, macro=o.get("macro")))
        if o.get("macro") == "" or o.get("values") is None:
            return ("wrong-value", want, dict(got, macro=o.get("macro")))
        v = o["values"]
        if kind == "bool":
            ok = (isinstance(v, bool) or isinstance(v, int)) and int(v) == int(exp["flat"][0])
        elif kind == "int":
            ok = o["kind"] == "int" and v == exp["flat"][0]
        elif kind == "float":
            ok = o["kind"] == "float" and (v == exp["flat"][0] if exp["width"] != 32 else
                                           (v == exp["flat"][0] or _ok32(v, exp["flat"][0])))
        else:
            ok = o["kind"] == "str" and v == exp["flat"][0]
        return None if ok else ("wrong-value", want, dict(got, macro=o.get("macro")))

    # ---- none ---------------------------------------------------------------------------------------------------
    if exp["none"]:
        if backend in ("json", "yaml"):
            return None if (o["kind"] == "none" and o["values"] is None) else ("wrong-value", want, got)
        if backend == "dip":
            if o["kind"] != kind or (kind in ("int", "float") and o["width"] != exp["width"]) or \
                    (kind == "int" and o["signed"] != exp["signed"]):
                return ("wrong-type", want, got)
            return None if o["values"] is None else ("wrong-value", want, got)
        return ("wrong-value", want, got)          # a compiled constant cannot hold none: whatever compiles is not it

    # ---- declared type ------------------------------------------------------------------------------------------
    single = False
    if backend in ("c", "cpp"):
        tok = o["kind"] == kind
        if kind == "int":
            tok = tok and o["width"] == exp["width"] and o["signed"] == exp["signed"]
        elif kind == "float":
            tok = tok and o["ctype"] == {32: "float", 64: "double", 128: "ldouble"}.get(exp["width"])
            single = exp["width"] == 32
    elif backend == "fortran":
        tok = o["kind"] == kind
        if kind in ("int", "float"):
            tok = tok and o["width"] == exp["width"]
        single = kind == "float" and exp["width"] == 32
    elif backend == "rust":
        tok = o["kind"] == kind
        if kind == "int":
            tok = tok and o["width"] == exp["width"] and o["signed"] == exp["signed"]
        elif kind == "float":
            tok = tok and o["width"] == (64 if exp["width"] == 128 else exp["width"])   # f128 documented as f64
            single = exp["width"] == 32
    elif backend == "dip":
        tok = o["kind"] == kind
        if kind in ("int", "float"):
            tok = tok and o["width"] == exp["width"]
        if kind == "int":
            tok = tok and o["signed"] == exp["signed"]
    else:                                            # json / yaml / toml: the loader's value class
        tok = o["kind"] == kind
    if not tok:
        return ("wrong-type", want, got)

    # ---- unit (formats that carry one) --------------------------------------------------------------------------
    if backend in ("json", "yaml", "toml", "dip"):
        wu = exp["unit"] if (backend == "dip" or (opt.get("parse") or {}).get("units", True)) else None
        want["unit"] = wu
        got["unit"] = o.get("unit")
        if o.get("unit") != wu:
            return ("wrong-unit", want, got)

    # ---- shape and elements by index ----------------------------------------------------------------------------
    if (o["shape"] or None) != (exp["shape"] or None):
        return ("wrong-shape", want, got)
    oflat = o["values"] if exp["shape"] else [o["values"]]
    if len(oflat) != len(exp["flat"]):
        return ("wrong-shape", want, got)
    eflat = exp["flat"]
    if backend == "fortran" and kind == "str":
        # character entities are blank padded and Fortran's own == ignores trailing blanks: compared modulo trailing
        # blanks, but the declared length must be able to hold every element completely
        need = max(len(e) for e in eflat)
        want["charlen>="] = need
        got["charlen"] = o.get("charlen")
        if o.get("charlen") is None or o["charlen"] < need:
            return ("truncated", want, got)
        eflat = [e.rstrip(" ") for e in eflat]
        exp = dict(exp, flat=eflat)
    if not o.get("exact", True) and kind == "float":
        return ("wrong-value", want, dict(got, note="carries more bits than a double"))
    if all(_eq(kind, x, e, single) for x, e in zip(oflat, eflat)):
        return None
    return (_value_behaviour(exp, oflat, single), want, got)


# ---------------------------------------------------------------------------------------------- tags
def tags_of(backend, opt, spec, mode, sel=None):
    c = _cls(spec["dtype"])
    rank = 0 if spec["shape"] is None else len(spec["shape"])
    t = ["backend=" + backend, "opt=" + opt["id"], "mode=" + mode, "dtype=" + spec["dtype"], "class=" + c,
         "rank=%d" % rank, "name-seps=%d" % spec["name"].count(".")]
    t.append("origin=" + (spec.get("origin") or "defined"))
    if rank >= 1:
        t.append("rank>=1")
    if rank >= 2:
        t.append("rank>=2")
    flat = _flat(spec["value"])
    if spec["value"] is None:
        t.append("value=none")
    if spec.get("unit"):
        t.append("has-unit")
    if c == "str" and spec["value"] is not None:
        if any('"' in x for x in flat):
            t.append("has-quote")
        if any(" " in x for x in flat):
            t.append("has-space")
        if len(set(len(x) for x in flat)) > 1:
            t.append("unequal-length")
        special = sorted(set(ch for x in flat for ch in x if 32 < ord(ch) < 127 and not ch.isalnum() and ch != '"'))
        if special:
            t.append("has-delimiter")
            t.extend("char=" + ch for ch in special)
        if any("\\" in x for x in flat):
            t.append("has-backslash")
        if any(x.endswith("\\") for x in flat):
            t.append("has-trailing-backslash")
        if any("\\x" in repr(x) for x in flat):
            t.append("repr-has-backslash-x")       # what the encoder of the `toml` package trips over
        if any(ord(ch) > 127 for x in flat for ch in x):
            t.append("non-ascii")
            if any(ord(ch) > 0xFFFF for x in flat for ch in x):
                t.append("astral")
        if any(ord(ch) < 32 for x in flat for ch in x):
            t.append("control-char")
        if any(", " in x for x in flat):
            t.append("has-comma-blank")
        if any(x.startswith(" ") for x in flat):
            t.append("has-leading-blank")
        if any(x.endswith(" ") for x in flat):
            t.append("has-trailing-blank")
    if c == "float" and spec["value"] is not None and spec["dtype"] != "float32":
        import numpy as np
        with np.errstate(all="ignore"):
            if any(float(np.float32(x)) != x for x in flat):
                t.append("f32-inexact")
    if c == "uint" and spec["value"] is not None and any(x > IMAX[_width(spec["dtype"])] for x in flat):
        t.append("above-signed-max")
    if c in ("sint", "uint") and spec["value"] is not None and any(abs(x) > IMAX[32] for x in flat):
        t.append("above-int32")
    if backend in rd.COMPILED and mode in ("const", "constexpr"):
        t.append("constant")
    if not (opt.get("ctor") or {}).get("rename", True):
        t.append("rename=off")
    if sel:
        t.append("select")
    return t


# ---------------------------------------------------------------------------------------------- one batch
_STAGE = dict(export="export-raises", compile="does-not-compile", run="runtime-crash", load="does-not-load",
              absent="unselected-symbol-defined", env="env-not-parsed")


# class-level data attributes of the exporter classes: restored before every environment is parsed, so that whatever an
# exporter leaves on its class is carried between the exports of ONE history only, never from one case to the next
_CLS_SNAP = None


def _exporter_classes():
    import inspect
    from scinumtools.dip import config as cfg
    seen = []
    for _, c in inspect.getmembers(cfg, inspect.isclass):
        for k in c.__mro__:
            if k.__module__.startswith("scinumtools.dip.config") and k not in seen:
                seen.append(k)
    return seen


def _class_data(c):
    return {k: v for k, v in vars(c).items() if not k.startswith("__") and not callable(v) and
            not isinstance(v, (property, classmethod, staticmethod))}


def class_state_snapshot():
    global _CLS_SNAP
    import copy
    _CLS_SNAP = {c: copy.deepcopy(_class_data(c)) for c in _exporter_classes()}


def class_state_restore():
    import copy
    if _CLS_SNAP is None:
        return
    for c, snap in _CLS_SNAP.items():
        cur = _class_data(c)
        for k in cur:
            if k not in snap:
                delattr(c, k)
        for k, v in snap.items():
            same = False
            try:
                same = k in cur and type(cur[k]) is type(v) and bool(cur[k] == v)
            except Exception:
                same = False
            if not same or isinstance(v, (list, dict, set)):
                setattr(c, k, copy.deepcopy(v))


def _parse_env(src):
    class_state_restore()
    from scinumtools.dip import DIP
    with DIP() as dip:
        dip.add_string(src)
        return dip.parse()


def export_text(backend, opt, env, sel, keys_ranks, presel=None):
    """run the real exporter; returns (text, text_of_second_parse_call).  sel = None: select() is not called; a dict
    (also the empty one): select(**sel) is called.  presel = (earlier selections [dict, ...], parse_between): the
    earlier select() calls made on the SAME exporter object before select(**sel), each followed by a parse() call of
    that exporter when parse_between is set."""
    cls = _exporter(backend)
    kw = dict(opt.get("parse") or {})
    if backend in ("c", "cpp"):
        dnames = [k for k, m in keys_ranks if m == "define"]
        cnames = [k for k, m in keys_ranks if m == "const"]
        if opt.get("define"):
            kw["define"] = dnames
        if backend == "cpp" and opt.get("const"):
            kw["const"] = cnames
    with cls(env, **(opt.get("ctor") or {})) as exp:
        if presel:
            for ps in presel[0]:
                exp.select(**ps)
                if presel[1]:
                    exp.parse(**kw)
        if sel is not None:
            exp.select(**sel)
        t1 = exp.parse(**kw)
        t2 = exp.parse(**kw)
    return t1, t2


def _history(env, specs, before):
    """the earlier exports of a history: every (back-end, option set id) of `before` exports the SAME environment object
    (no selection: the exporter then holds the environment's own value objects).  Their text is not judged here (that
    is done in the batch phase); returns 'ok' / 'raises:<Type>' per step."""
    hist = []
    for b, oid in (before or []):
        bo = optset(b, oid)
        ho = outcome(export_text, b, bo, env, None, [(s["name"], _mode(b, bo, s)) for s in specs], timeout=60)
        hist.append("ok" if ho[0] == "ok" else "raises:" + ho[1])
    return hist


def run_batch(backend, opt, specs, sel=None, before=None, presel=None):
    """Export + read back one environment (after the exports `before` = [(back-end, option set id), ...] were made from
    the same environment object).  The expectation is read from the environment BEFORE any exporter touched it.
    -> ("ok", {spec id: None | (behaviour, expected, observed, tags)}, info) | ("fail", stage, message)"""
    from scinumtools.dip.settings import Format
    try:
        o = outcome(_parse_env, dip_source(specs))
        if o[0] != "ok":
            return ("fail", "env", "%s: %s" % (o[1], o[2]))
        env = o[1]
        o = outcome(env.data, Format.NODE)
        if o[0] != "ok" or any(n.value is None for n in o[1].values()):
            return ("fail", "env", "%s: %s" % (o[1], o[2]) if o[0] != "ok" else "node without value")
        types = o[1]
        chosen = select_model(specs, sel)
        plan = [(s, key, _mode(backend, opt, s)) for s, key in chosen]
        if any(skip_reason(backend, opt, s) for s, _, _ in plan):
            raise HarnessError("not-demanded parameter inside a batch")
        exps = {}
        for s, key, mode in plan:
            if s["name"] not in types:
                return ("fail", "env", "node %s missing from the environment" % s["name"])
            exps[s["id"]] = _expected(types[s["name"]])      # snapshot (new lists) of the environment as parsed
        hist = _history(env, specs, before)
        o = outcome(export_text, backend, opt, env, sel, [(key, mode) for s, key, mode in plan], timeout=60,
                    presel=presel)
        if o[0] != "ok":
            return ("fail", "export", "%s: %s" % (o[1], o[2]))
        text, text2 = o[1]
        items = []
        for s, key, mode in plan:
            e = exps[s["id"]]
            rank = 0 if e["shape"] is None else len(e["shape"])
            items.append(Item(symbol(backend, opt, key), rank, "define" if mode == "define" else "const", e["none"]))
        absent = []
        if sel:
            sel_ids = set(s["id"] for s, _, _ in plan)
            taken = set(it.name for it in items)
            for s in specs:
                if s["id"] not in sel_ids:
                    for key in (s["name"], s["name"].split(".")[-1]):
                        a = symbol(backend, opt, key)
                        if a not in taken and a not in absent:
                            absent.append(a)
        results = {}
        nprog = 0
        texts = [text] if text2 == text else [text, text2]
        for ti, tx in enumerate(texts):
            root, d = _scratch()
            try:
                r = rd.READERS[backend](d, tx, items, absent, **(
                    dict(module=(opt.get("parse") or {}).get("module", "ConfigurationModule"))
                    if backend == "fortran" else {}))
            finally:
                _cleanup(root, d)
            nprog += 1
            if r[0] != "ok":
                return ("fail", r[1], r[2], nprog)
            obs = r[1]
            ncmp = 0
            for (s, key, mode), it in zip(plan, items):
                e = exps[s["id"]]
                c = compare(backend, opt, s, e, mode, it.name, obs)
                ncmp += 1 + (len(e["flat"]) if e["flat"] else 0)
                if c is not None and results.get(s["id"]) is None:
                    beh = c[0] if ti == 0 else "second-parse:" + c[0]
                    results[s["id"]] = (beh, c[1], c[2], tags_of(backend, opt, s, mode, sel))
                else:
                    results.setdefault(s["id"], None)
            # symbols nobody asked for (formats whose reader enumerates every symbol)
            extra = []
            if backend in ("bash", "json", "yaml", "toml", "dip"):
                extra = sorted(set(obs) - set(it.name for it in items))
        differs = sum(1 for s, _, _ in plan if s.get("origin") != "modunit" and
                      exps[s["id"]]["flat"] != (_flat(s["value"]) if s["value"] is not None else None))
        info = dict(programs=nprog, compared=ncmp, extra=extra, twice_differs=text2 != text, symbols=len(items),
                    env_differs=differs, history=hist)
        return ("ok", results, info)
    finally:
        isolation.tables_restore()


def _case(backend, opt, specs, sel, target=None):
    c = dict(backend=backend, opt=opt["id"], params=[{k: v for k, v in s.items() if k not in ("family",)} for s in specs])
    if sel is not None:
        c["select"] = sel
    if target:
        c["target"] = target
    return c


def check_batch(backend, opt, specs, sh, sel=None, top=True):
    """delta debugging: returns True when the batch could be read back (no batch-level failure)"""
    if not specs and not sel:
        return True
    r = run_batch(backend, opt, specs, sel)
    if r[0] == "ok":
        results, info = r[1], r[2]
        sh.add_extra("programs", info["programs"])
        sh.add_extra("disagreements_checked", info["compared"])
        sh.count("%s:read-back-ok" % backend)
        if info["env_differs"]:
            # the parser did not deliver the value the alphabet intended (parser matter; the oracle follows the env)
            sh.count("env-differs-from-spec", info["env_differs"])
        if info["twice_differs"]:
            sh.count("%s:second-parse-text-differs" % backend)
        for s in specs:
            if s["id"] not in results:
                continue
            sh.evaluations += 1
            sh.nontrivial += 1
            res = results[s["id"]]
            if res is None:
                sh.count("%s:agree" % backend)
                if len(sh.samples) < 3 and top:
                    sh.sample(dict(backend=backend, opt=opt["id"], dip=dip_source([s]).strip()))
                continue
            beh, want, got, tags = res
            sh.count("%s:%s" % (backend, beh))
            rec = failure("readback", _case(backend, opt, [s], sel, s["name"]), want, got, tags=tags, behaviour=beh)
            if len(specs) > 1 and findings.attribute(PROPERTY, rec) is None:
                # confirm in isolation so that the replay file is self-contained
                r1 = run_batch(backend, opt, [s], sel)
                if r1[0] == "ok":
                    sh.add_extra("programs", r1[2]["programs"])
                single = r1[1].get(s["id"]) if r1[0] == "ok" else None
                if single is None or single[0] != beh:
                    rec = failure("readback-in-batch", _case(backend, opt, specs, sel, s["name"]), want, got,
                                  tags=tags + ["only-in-batch"], behaviour=beh)
            sh.fail(rec)
        if info["extra"]:
            sh.count("%s:extra-symbol" % backend)
            sh.fail(failure("symbols", _case(backend, opt, specs, sel), "only the selected parameters", info["extra"][:10],
                            tags=["backend=" + backend, "opt=" + opt["id"]] + (["select"] if sel else []),
                            behaviour="extra-symbol"))
        return True
    stage, msg = r[1], r[2]
    if len(r) > 3:
        sh.add_extra("programs", r[3])
    sh.count("%s:batch-%s" % (backend, stage))
    if stage == "absent":
        # the selected symbols compile, but a symbol that must not exist is defined: no need to split
        sh.evaluations += 1
        sh.fail(failure("symbols", _case(backend, opt, specs, sel), "only the selected parameters are defined", msg,
                        tags=["backend=" + backend, "opt=" + opt["id"], "select"], behaviour="extra-symbol"))
        return False
    if len(specs) == 1:
        s = specs[0]
        if stage == "env":
            sh.count("%s:env-not-parsed" % backend)       # a parser matter (C13), not an export disagreement
            return False
        sh.evaluations += 1
        sh.nontrivial += 1
        beh = _STAGE[stage] + (":" + msg.split(":")[0] if stage == "export" else "")
        if stage == "compile":
            # class of the compiler diagnostic (only names the defect, the oracle is the compiler's verdict)
            if s["value"] is None and re.search(r"\bNone\b|'none'", msg):
                beh += ":None-token"
            elif "Integer too big for its kind" in msg:
                beh += ":integer-literal-too-big"
        sh.count("%s:%s" % (backend, beh))
        sh.fail(failure("readback", _case(backend, opt, [s], sel, s["name"]),
                        "exported text can be read back by the format's reader", msg,
                        tags=tags_of(backend, opt, s, _mode(backend, opt, s), sel), behaviour=beh))
        return False
    mid = len(specs) // 2
    a = check_batch(backend, opt, specs[:mid], sh, sel, top=False)
    b = check_batch(backend, opt, specs[mid:], sh, sel, top=False)
    if a and b:
        sh.count("%s:fails-only-together" % backend)
        sh.fail(failure("readback-in-batch", _case(backend, opt, specs, sel), "exported text can be read back", msg,
                        tags=["backend=" + backend, "opt=" + opt["id"], "only-in-batch"], behaviour=_STAGE[stage]))
    return False


def _selected_count(specs, sel):
    return len(select_model(specs, sel))


# ---------------------------------------------------------------------------------------------- selection phase
def select_env():
    """one environment with flat / grouped / nested names, tags on every second parameter"""
    base = [p for p in base_params()]
    pick = []

    def first(dtype, rank, nth=0):
        c = [p for p in base if p["dtype"] == dtype and (0 if p["shape"] is None else len(p["shape"])) == rank
             and p["value"] is not None and p["family"] != "quote" and not p.get("origin")]
        return c[nth % len(c)]

    layout = [("", "bool", 0, 0), ("", "int32", 0, 1), ("", "float64", 1, 0), ("", "str", 0, 0),
              ("grp.", "int16", 0, 2), ("grp.", "float32", 0, 3), ("grp.", "str", 1, 2), ("grp.", "bool", 1, 0),
              ("box.", "uint16", 0, 1), ("box.", "float128", 0, 1), ("box.", "int64", 2, 0), ("box.", "str", 0, 1),
              ("box.size.", "float64", 0, 4), ("box.size.", "uint32", 1, 0), ("box.size.", "bool", 0, 1),
              ("box.size.", "int32", 2, 1), ("boxer.", "int32", 0, 0), ("boxer.", "float64", 0, 1),
              ("box.size.deep.", "int64", 0, 1), ("grp.sub.", "float32", 1, 1)]
    for i, (prefix, dtype, rank, nth) in enumerate(layout):
        p = dict(first(dtype, rank, nth))
        p["name"] = "%sq%d" % (prefix, i)
        p["id"] = "sel/q%d" % i
        p["tags"] = ["sel"] if i % 2 == 0 else (["other"] if i % 3 == 0 else [])
        p.pop("idx")
        pick.append(p)
    return pick


def select_queries():
    qs = [dict(query="*"), dict(query="box.*"), dict(query="box.size.*"), dict(query="grp.*"),
          dict(query="q1"), dict(query="grp.q5"), dict(query="box.size.q13"),
          dict(tags=["sel"]), dict(query="*", tags=["sel"]), dict(query="box.*", tags=["sel"]),
          dict(query="box.size.*", tags=["other"]), dict(query="nothing.*")]
    return qs


# ---------------------------------------------------------------------------------------------- pairs phase
def representatives(tier="quick"):
    """quick: one parameter per family (the second, so that not all are zeros); thorough: second, first and last"""
    out = []
    for fam in families():
        if tier != "thorough" and fam.startswith(("delim", "escape", "unicode", "origin")) and \
                fam not in ("delim-r0", "escape-r0", "unicode-r1", "origin-modother"):
            continue        # quick: one representative of each string-content / origin dimension is enough for pairs
        cands = [x for x in base_params() if x["family"] == fam]
        picks = [min(1, len(cands) - 1)]
        if tier == "thorough":
            for i in (0, len(cands) - 1):
                if i not in picks:
                    picks.append(i)
        for i in picks:
            out.append(named(cands[i], len(out) % NAMEKINDS))
    return out


def _body_lines(text):
    return text.split("\n")


def _compositional(lp, lq, lpq):
    """text of the pair is exactly the frame plus the declaration lines of p followed by those of q"""
    from collections import Counter
    cp, cq, cpq = Counter(lp), Counter(lq), Counter(lpq)
    if cpq != (cp + cq) - (cp & cq):
        return False
    bp = [x for x in lp if x not in cq]
    bq = [x for x in lq if x not in cp]
    seq = [x for x in lpq if x in set(bp) | set(bq)]
    return seq == bp + bq


def _text_only(backend, opt, specs):
    """export text of an environment without reading it back -> ('ok', text) | ('err', ...)"""
    try:
        o = outcome(_parse_env, dip_source(specs))
        if o[0] != "ok":
            return ("err", "env", o[2])
        plan = [(s["name"], _mode(backend, opt, s)) for s in specs]
        o = outcome(export_text, backend, opt, o[1], None, plan, timeout=60)
        if o[0] != "ok":
            return ("err", "export:" + o[1], o[2])
        return ("ok", o[1][0])
    finally:
        isolation.tables_restore()


def run_pairs(backend, first_id, sh, tier="quick"):
    opt = optsets(backend)[0]
    reps = [r for r in representatives(tier) if not skip_reason(backend, opt, r)]
    p = [r for r in reps if r["id"] == first_id]
    if not p:
        return
    p = p[0]
    singles = {}

    def single(s):
        if s["id"] not in singles:
            if backend in rd.COMPILED:
                singles[s["id"]] = _text_only(backend, opt, [s])
            else:
                r = run_batch(backend, opt, [s])
                if r[0] == "ok":
                    sh.add_extra("programs", r[2]["programs"])
                    res = r[1].get(s["id"])
                    singles[s["id"]] = ("ok", res[0] if res else None)
                else:
                    singles[s["id"]] = ("fail", r[1])
        return singles[s["id"]]

    for q in reps:
        if q["id"] == p["id"]:
            continue
        sh.evaluations += 1
        sp, sq = single(p), single(q)
        if backend in rd.COMPILED:
            tpq = _text_only(backend, opt, [p, q])
            if sp[0] == "ok" and sq[0] == "ok" and tpq[0] == "ok" and \
                    _compositional(_body_lines(sp[1]), _body_lines(sq[1]), _body_lines(tpq[1])):
                sh.count("%s:pair-compositional" % backend)
                sh.nontrivial += 1
                continue
            if sp[0] != "ok" or sq[0] != "ok":
                if tpq[0] != "ok":
                    sh.count("%s:pair-fails-like-single" % backend)
                    continue
            # not a plain composition: read the pair back for real
            sh.count("%s:pair-recompiled" % backend)
            check_batch(backend, opt, [p, q], sh)
            continue
        r = run_batch(backend, opt, [p, q])
        if r[0] == "ok":
            sh.add_extra("programs", r[2]["programs"])
            sh.add_extra("disagreements_checked", r[2]["compared"])
            sh.nontrivial += 1
            bad = False
            for s, ss in ((p, sp), (q, sq)):
                res = r[1].get(s["id"])
                pair_beh = res[0] if res else None
                single_beh = ss[1] if ss[0] == "ok" else "single-failed"
                if pair_beh != single_beh:
                    bad = True
                    sh.fail(failure("pair", _case(backend, opt, [p, q], None, s["name"]),
                                    "same result as when exported alone (%s)" % single_beh, pair_beh or "agrees",
                                    tags=["backend=" + backend, "pair"], behaviour="differs-next-to-other-parameter"))
            if r[2]["extra"]:
                bad = True
                sh.fail(failure("symbols", _case(backend, opt, [p, q], None), "only the two parameters", r[2]["extra"],
                                tags=["backend=" + backend, "pair"], behaviour="extra-symbol"))
            sh.count("%s:pair-%s" % (backend, "differs" if bad else "same-as-singles"))
        else:
            if sp[0] == "ok" and sq[0] == "ok":
                sh.fail(failure("pair", _case(backend, opt, [p, q], None), "both parameters readable as when exported alone",
                                "%s: %s" % (r[1], r[2]), tags=["backend=" + backend, "pair"],
                                behaviour="fails-next-to-other-parameter"))
                sh.count("%s:pair-differs" % backend)
            else:
                sh.count("%s:pair-fails-like-single" % backend)


# ---------------------------------------------------------------------------------------------- histories of exports
# "For every parsed environment, EACH configuration export ...": an environment object is commonly exported by several
# back-ends in a row.  A history = earlier exports [(back-end, option set), ...] made from one freshly parsed
# environment object, then the export under test from the same object.  The export under test is compared with the
# environment as it was parsed (expectation taken before the first exporter ran).
#
# Reduction: the reader's verdict is a function of the exported text.  When the text after the history is identical to
# the text the same exporter gives for a freshly parsed environment of the same source (that text is read back in the
# batch phase: same family, same window, same parameter list), nothing is left to compare.  Only when the texts differ
# the export is read back for real; a parameter is reported when it disagrees with the environment in a way it does
# not disagree without the history (so the recorded findings of the fresh export are not reported a second time).
def _texts(backend, opt, specs, before=None):
    """-> (('ok', (text, text of the second parse() call)) | ('err', what), [outcome of every earlier export])"""
    try:
        o = outcome(_parse_env, dip_source(specs))
        if o[0] != "ok":
            return ("err", "env:%s" % o[1]), []
        env = o[1]
        hist = _history(env, specs, before)
        plan = [(s["name"], _mode(backend, opt, s)) for s in specs]
        o = outcome(export_text, backend, opt, env, None, plan, timeout=60)
        if o[0] != "ok":
            return ("err", "export:%s: %s" % (o[1], o[2])), hist
        return ("ok", tuple(o[1])), hist
    finally:
        isolation.tables_restore()


def _after_tags(before):
    return ["after-earlier-export", "history-length=%d" % len(before)] + ["earlier=" + b for b, _ in before] + \
           ["earlier-opt=%s/%s" % (b, oid) for b, oid in before]


def _after_case(backend, opt, specs, before, target=None):
    c = _case(backend, opt, specs, None, target)
    c["before"] = [[b, oid] for b, oid in before]
    return c


def check_after(before, backend, opt, specs, sh, fresh=None, top=True):
    """the export (backend, opt) of `specs` after the earlier exports `before` from the same environment object"""
    if not specs:
        return
    before = [tuple(x) for x in before]
    if fresh is None:
        fresh = _texts(backend, opt, specs)[0]
    seq, hist = _texts(backend, opt, specs, before)
    if top:
        for (b, oid), h in zip(before, hist):
            sh.count("after:earlier-export-%s:%s" % ("ok" if h == "ok" else "raises", b))
    n = len(specs)
    if seq == fresh:
        sh.evaluations += n
        if seq[0] == "ok":
            sh.nontrivial += n
            sh.count("after:%s:same-text-as-fresh-export" % backend, n)
        else:
            sh.count("after:%s:same-failure-as-fresh-export" % backend, n)
        return
    sh.count("after:%s:text-differs-from-fresh-export" % backend)
    rh = run_batch(backend, opt, specs, before=before)
    rf = run_batch(backend, opt, specs)
    for r in (rh, rf):
        if r[0] == "ok":
            sh.add_extra("programs", r[2]["programs"])
        elif len(r) > 3:
            sh.add_extra("programs", r[3])

    def beh_of(r, s):
        """None = agrees with the environment, else the class of the disagreement / batch failure"""
        if r[0] != "ok":
            return "batch:" + _STAGE[r[1]]
        res = r[1].get(s["id"])
        return res[0] if res else None

    if rh[0] == "ok":
        sh.add_extra("disagreements_checked", rh[2]["compared"])
        for s in specs:
            sh.evaluations += 1
            sh.nontrivial += 1
            res = rh[1].get(s["id"])
            if res is None:
                sh.count("after:%s:agree" % backend)
                continue
            if beh_of(rf, s) == res[0]:
                sh.count("after:%s:disagrees-like-fresh-export" % backend)
                continue
            beh, want, got, tags = res
            sub, cspecs, extra = "after-export", [s], []
            if n > 1:
                # confirm in isolation so that the replay file is small and self-contained
                r1, f1 = run_batch(backend, opt, [s], before=before), run_batch(backend, opt, [s])
                if not (r1[0] == "ok" and beh_of(r1, s) == beh and beh_of(f1, s) != beh):
                    sub, cspecs, extra = "after-export-in-batch", specs, ["only-in-batch"]
            sh.count("after:%s:%s" % (backend, beh))
            sh.fail(failure(sub, _after_case(backend, opt, cspecs, before, s["name"]), want, got,
                            tags=tags + _after_tags(before) + extra, behaviour="after-earlier-export:" + beh))
        return
    stage, msg = rh[1], rh[2]
    if n > 1:
        mid = n // 2
        check_after(before, backend, opt, specs[:mid], sh, top=False)
        check_after(before, backend, opt, specs[mid:], sh, top=False)
        return
    s = specs[0]
    sh.evaluations += 1
    if stage == "env" or beh_of(rf, s) == "batch:" + _STAGE[stage]:
        sh.count("after:%s:fails-like-fresh-export" % backend)
        return
    sh.nontrivial += 1
    beh = _STAGE[stage] + (":" + msg.split(":")[0] if stage == "export" else "")
    sh.count("after:%s:%s" % (backend, beh))
    sh.fail(failure("after-export", _after_case(backend, opt, [s], before, s["name"]),
                    "exported text can be read back by the format's reader as without the earlier exports", msg,
                    tags=tags_of(backend, opt, s, _mode(backend, opt, s)) + _after_tags(before),
                    behaviour="after-earlier-export:" + beh))


def all_optsets():
    return [(b, o["id"]) for b in BACKENDS for o in optsets(b)]


def histories(tier):
    """quick: every single earlier export (back-end x option set); thorough: additionally every ordered pair of
    earlier exports with the first option set of each back-end"""
    hs = [[x] for x in all_optsets()]
    if tier == "thorough":
        firsts = [(b, optsets(b)[0]["id"]) for b in BACKENDS]
        hs += [[x, y] for x in firsts for y in firsts]
    return hs


def run_after(backend, fam, window, tier, flat_too, sh):
    for opt in optsets(backend):
        if opt.get("flat") and not flat_too:
            continue                  # option sets with flat names have one window only
        w = 0 if opt.get("flat") else window
        specs = _batch_specs(backend, opt, fam, w)
        if not specs:
            continue
        fresh = _texts(backend, opt, specs)[0]
        for before in histories(tier):
            sh.count("after:histories")
            check_after(before, backend, opt, specs, sh, fresh=fresh)


# ---------------------------------------------------------------------------------------------- histories of selections
# "Selecting by query or tags exports exactly the selected parameters": an exporter object is a live object, select()
# may be called on it any number of times (and parse() in between).  A history = earlier select() calls [form, ...] on ONE
# exporter (optionally each followed by parse()), then select(last form) and the export under test.  What must be
# exported is the documented selection of the LAST call alone (select_model); an argument omitted in the last call means
# "no query" / "no tags", whatever an earlier call gave.
#
# Reduction (as for histories of exports): the reader's verdict is a function of the exported text.  The export of a
# NEW exporter with the single call select(last form) is read back in this very shard; a history whose text (both
# parse() calls) equals it is decided by that read-back.  Any other text is read back itself (once per distinct text of
# the shard) and compared with select_model(last form).
SEL_FORMS = [("none", dict()), ("all", dict(query="*")), ("box", dict(query="box.*")), ("grp", dict(query="grp.*")),
             ("path", dict(query="grp.q5")), ("tag-sel", dict(tags=["sel"])), ("tag-other", dict(tags=["other"])),
             ("box+tag", dict(query="box.*", tags=["sel"]))]


def sel_histories(tier):
    """earlier select() calls of one exporter: every sequence of 1 and 2 forms (thorough: also 3) x parse() after
    each earlier select yes/no"""
    names = [n for n, _ in SEL_FORMS]
    hs = []
    for L in ((1, 2, 3) if tier == "thorough" else (1, 2)):
        for seq in itertools.product(names, repeat=L):
            for between in (False, True):
                hs.append((list(seq), between))
    return hs


def _sel_form(name):
    for n, f in SEL_FORMS:
        if n == name:
            return dict(f)
    raise HarnessError("unknown selection form %r" % (name,))


def _sel_texts(backend, opt, specs, sel, presel=None):
    """text of the export after the selection history -> ('ok', (text, text2)) | ('err', what)"""
    try:
        o = outcome(_parse_env, dip_source(specs))
        if o[0] != "ok":
            return ("err", "env:%s" % o[1])
        plan = [(key, _mode(backend, opt, s)) for s, key in select_model(specs, sel)]
        o = outcome(export_text, backend, opt, o[1], sel, plan, timeout=60, presel=presel)
        if o[0] != "ok":
            return ("err", "export:%s: %s" % (o[1], o[2]))
        return ("ok", tuple(o[1]))
    finally:
        isolation.tables_restore()


def _selhist_case(backend, opt, specs, last, earlier, between, target=None):
    c = _case(backend, opt, specs, _sel_form(last), target)
    c["select_history"] = dict(earlier=list(earlier), parse_between=bool(between), last=last)
    return c


def _selhist_tags(backend, opt, last, earlier, between):
    forms = [_sel_form(n) for n in earlier]
    lf = _sel_form(last)
    # (the earlier forms themselves are in the case; as tags they would make every history a class of its own)
    t = ["backend=" + backend, "opt=" + opt["id"], "select", "select-history", "last-select=" + last]
    if between:
        t.append("parse-between-selects")
    if "query" not in lf and any("query" in f for f in forms):
        t.append("last-omits-query-given-earlier")
    if "tags" not in lf and any("tags" in f for f in forms):
        t.append("last-omits-tags-given-earlier")
    return t


def _selhist_verdict(backend, opt, specs, last, presel):
    """read the export after the history back -> list of (target name | None, behaviour, expected, observed)"""
    sel = _sel_form(last)
    r = run_batch(backend, opt, specs, sel, presel=presel)
    nprog = r[2]["programs"] if r[0] == "ok" else (r[3] if len(r) > 3 else 0)
    out = []
    if r[0] == "ok":
        for s, _ in select_model(specs, sel):
            res = r[1].get(s["id"])
            if res is not None:
                out.append((s["name"], res[0], res[1], res[2]))
        if r[2]["extra"]:
            out.append((None, "extra-symbol", "only the parameters selected by the last select()", r[2]["extra"][:10]))
        return out, nprog, (r[2]["compared"] if r[0] == "ok" else 0)
    stage, msg = r[1], r[2]
    beh = _STAGE[stage] + (":" + msg.split(":")[0] if stage == "export" else "")
    want = ("only the parameters selected by the last select() are defined" if stage == "absent" else
            "the parameters selected by the last select() can be read back by the format's reader")
    out.append((None, "extra-symbol" if stage == "absent" else beh, want, msg))
    return out, nprog, 0


def check_selhist(backend, opt, specs, last, earlier, between, sh, fresh=None, fresh_verdict=None, cache=None):
    """one history of select() calls on one exporter object; returns the failures (also recorded in sh)"""
    sel = _sel_form(last)
    presel = ([_sel_form(n) for n in earlier], bool(between))
    n = len(select_model(specs, sel))
    if fresh is None:
        fresh = _sel_texts(backend, opt, specs, sel)
    seq = _sel_texts(backend, opt, specs, sel, presel)
    sh.evaluations += max(n, 1)
    if seq == fresh:
        if seq[0] == "ok":
            sh.nontrivial += max(n, 1)
            sh.count("selhist:%s:same-text-as-new-exporter" % backend, max(n, 1))
        else:
            sh.count("selhist:%s:same-failure-as-new-exporter" % backend)
        return []
    sh.nontrivial += max(n, 1)
    sh.count("selhist:%s:text-differs-from-new-exporter" % backend)
    if fresh_verdict is None:
        fresh_verdict, np_, nc_ = _selhist_verdict(backend, opt, specs, last, None)
        sh.add_extra("programs", np_)
    key = seq if seq[0] == "ok" else None
    if cache is not None and key is not None and key in cache:
        # the same text was read back (and, when it disagrees, reported) for an earlier history of this shard
        sh.count("selhist:%s:text-read-back-for-earlier-history:%s" % (backend, "disagrees" if cache[key] else "agrees"))
        return []
    else:
        verdict, np_, nc_ = _selhist_verdict(backend, opt, specs, last, presel)
        sh.add_extra("programs", np_)
        sh.add_extra("disagreements_checked", nc_)
        if cache is not None and key is not None:
            cache[key] = verdict
    known = set((t, b) for t, b, _, _ in fresh_verdict)
    fails = []
    for target, beh, want, got in verdict:
        if (target, beh) in known:
            sh.count("selhist:%s:disagrees-like-new-exporter" % backend)
            continue
        sub = "select-history" if target is not None else "select-history-symbols"
        rec = failure(sub, _selhist_case(backend, opt, specs, last, earlier, between, target), want, got,
                      tags=_selhist_tags(backend, opt, last, earlier, between),
                      behaviour="after-earlier-select:" + beh)
        sh.count("selhist:%s:%s" % (backend, beh))
        sh.fail(rec)
        fails.append(rec)
    if not fails:
        sh.count("selhist:%s:agree" % backend)
    return fails


def run_selhist(backend, last, tier, sh):
    opt = optsets(backend)[0]
    specs = [s for s in select_env() if not skip_reason(backend, opt, s)]
    sel = _sel_form(last)
    n = len(select_model(specs, sel))
    sh.count("selhist:last-selects-%s" % ("nothing" if n == 0 else "some" if n < len(specs) else "all"))
    fresh = _sel_texts(backend, opt, specs, sel)
    # the export of a NEW exporter with the single call select(last): read back here (failures of it belong to the
    # selection phase / batch phase and are reported there, not here)
    fresh_verdict, np_, nc_ = _selhist_verdict(backend, opt, specs, last, None)
    sh.add_extra("programs", np_)
    sh.add_extra("disagreements_checked", nc_)
    sh.count("selhist:%s:new-exporter-%s" % (backend, "agrees" if not fresh_verdict else "disagrees"))
    cache = {}
    for earlier, between in sel_histories(tier):
        sh.count("selhist:histories")
        sh.count("selhist:earlier-selects=%d" % len(earlier))
        check_selhist(backend, opt, specs, last, earlier, between, sh, fresh, fresh_verdict, cache)


# ---------------------------------------------------------------------------------------------- harness API
def _prime_inspect_cache():
    """Speed only, no effect on results: DIP() calls inspect.stack(); frames whose file maps to no module (the
    '<frozen runpy>' frames under `python -m mc.main`) make inspect rescan sys.modules on every call."""
    import sys
    import inspect
    f = sys._getframe()
    while f is not None:
        fn = f.f_code.co_filename
        if fn not in inspect.modulesbyfile:
            inspect.getmodule(f, fn)
            name = f.f_globals.get("__name__")
            if fn not in inspect.modulesbyfile and name in sys.modules:
                inspect.modulesbyfile[fn] = name
        f = f.f_back


def init_worker():
    import scinumtools.dip  # noqa
    isolation.tables_snapshot()
    class_state_snapshot()
    _prime_inspect_cache()


def _batch_specs(backend, opt, family, window, reverse=False):
    out = []
    for p in base_params():
        if p["family"] != family:
            continue
        kind = 0 if opt.get("flat") else (p["idx"] + window) % NAMEKINDS
        s = named(p, kind)
        if skip_reason(backend, opt, s):
            continue
        out.append(s)
    if reverse:
        out.reverse()
    return out


def plan(tier, seed):
    shards = []
    fams = families()
    windows = [seed % NAMEKINDS] if tier == "quick" else list(range(NAMEKINDS))
    # compiled back-ends first (longest jobs first keeps the pool busy)
    order = ["rust", "cpp", "fortran", "c", "bash", "dip", "json", "yaml", "toml"]
    for backend in order:
        for opt in optsets(backend):
            for fam in fams:
                ws = [0] if opt.get("flat") else windows
                for w in ws:
                    shards.append(("batch", backend, opt["id"], fam, w, False))
                if tier == "thorough" and not opt.get("flat"):
                    shards.append(("batch", backend, opt["id"], fam, (seed + 1) % NAMEKINDS, True))
    for backend in order:
        for qi in range(len(select_queries())):
            shards.append(("select", backend, qi))
    reps = representatives(tier)
    for backend in order:
        for r in reps:
            shards.append(("pairs", backend, r["id"], tier))
    for backend in order:
        for fam in fams:
            for w in windows:
                shards.append(("after", backend, fam, w, tier, w == windows[0]))
    for backend in order:
        for name, _ in SEL_FORMS:
            shards.append(("selhist", backend, name, tier))
    return shards


def run_shard(desc):
    sh = Shard(PROPERTY)
    kind = desc[0]
    if kind == "batch":
        _, backend, oid, fam, w, rev = desc
        opt = optset(backend, oid)
        specs = _batch_specs(backend, opt, fam, w, rev)
        skipped = sum(1 for p in base_params() if p["family"] == fam) - len(specs)
        if skipped:
            sh.count("%s:not-demanded-skipped" % backend, skipped)
        if specs:
            check_batch(backend, opt, specs, sh)
    elif kind == "select":
        _, backend, qi = desc
        opt = optsets(backend)[0]
        sel = select_queries()[qi]
        specs = [s for s in select_env() if not skip_reason(backend, opt, s)]
        n = _selected_count(specs, sel)
        sh.count("select:%s" % ("empty" if n == 0 else "some" if n < len(specs) else "all"))
        check_batch(backend, opt, specs, sh, sel)
    elif kind == "pairs":
        _, backend, rid, tier = desc
        run_pairs(backend, rid, sh, tier)
    elif kind == "after":
        _, backend, fam, w, tier, flat_too = desc
        run_after(backend, fam, w, tier, flat_too, sh)
    elif kind == "selhist":
        _, backend, last, tier = desc
        run_selhist(backend, last, tier, sh)
    else:
        raise HarnessError("unknown shard %r" % (desc,))
    return sh


def replay(rec):
    c = rec["case"]
    backend = c["backend"]
    opt = optset(backend, c["opt"])
    specs = c["params"]
    sel = c.get("select")
    sh = Shard()
    if rec["sub"] == "pair":
        p, q = specs
        out = {}
        for s in (p, q):
            r = run_batch(backend, opt, [s])
            res = r[1].get(s["id"]) if r[0] == "ok" else ("single-failed",)
            out[s["id"]] = res[0] if res else None
        r = run_batch(backend, opt, [p, q])
        if r[0] != "ok":
            if all(v != "single-failed" for v in out.values()):
                return failure("pair", c, rec["expected"], "%s: %s" % (r[1], r[2]), tags=rec["tags"],
                               behaviour="fails-next-to-other-parameter")
            return None
        for s in (p, q):
            res = r[1].get(s["id"])
            pb = res[0] if res else None
            if pb != out[s["id"]] and s["name"] == c.get("target", s["name"]):
                return failure("pair", c, rec["expected"], pb or "agrees", tags=rec["tags"],
                               behaviour="differs-next-to-other-parameter")
        return None
    if rec["sub"].startswith("select-history"):
        h = c["select_history"]
        check_selhist(backend, opt, specs, h["last"], h["earlier"], h["parse_between"], sh)
    elif rec["sub"].startswith("after-export"):
        check_after(c["before"], backend, opt, specs, sh)
    else:
        check_batch(backend, opt, specs, sh, sel)
    cands = sh.failures + [k["example"] for k in sh.known.values()]
    for f in cands:
        if f["sub"] == rec["sub"] and f["behaviour"] == rec["behaviour"] and \
                f["case"].get("target") == c.get("target"):
            return f
    for f in cands:
        if f["sub"] == rec["sub"] and f["behaviour"] == rec["behaviour"]:
            return f
    return cands[0] if cands else None


def finish(total, tier, seed):
    h = total.hist
    progs = int(total.extra.get("programs", 0))
    for b in BACKENDS:
        if not h.get("%s:read-back-ok" % b):
            raise HarnessError("vacuous: no export of back-end %s could be read back (tool chain missing?)" % b)
        if not h.get("%s:agree" % b):
            raise HarnessError("vacuous: no parameter of back-end %s agreed" % b)
    for k in ("select:empty", "select:some", "select:all"):
        if not h.get(k):
            raise HarnessError("vacuous: selection phase lacks outcome %s" % k)
    if progs < 100:
        raise HarnessError("vacuous: only %d programs" % progs)
    nh = len(histories(tier))
    for b in BACKENDS:
        if not h.get("after:earlier-export-ok:%s" % b):
            raise HarnessError("vacuous: no history in which an earlier %s export succeeded" % b)
        if not h.get("after:%s:same-text-as-fresh-export" % b) and not h.get("after:%s:agree" % b):
            raise HarnessError("vacuous: no %s export after an earlier export could be compared" % b)
    nsh = len(sel_histories(tier))
    if int(h.get("selhist:histories", 0)) != nsh * len(SEL_FORMS) * len(BACKENDS):
        raise HarnessError("selection histories: %s executed, %d planned" %
                           (h.get("selhist:histories"), nsh * len(SEL_FORMS) * len(BACKENDS)))
    for k in ("selhist:last-selects-some", "selhist:last-selects-all"):
        if not h.get(k):
            raise HarnessError("vacuous: selection histories lack outcome %s" % k)
    for b in BACKENDS:
        if not h.get("selhist:%s:new-exporter-agrees" % b):
            raise HarnessError("vacuous: no single selection of a new %s exporter could be read back" % b)
        if not h.get("selhist:%s:same-text-as-new-exporter" % b) and not h.get("selhist:%s:agree" % b):
            raise HarnessError("vacuous: no %s export after a selection history could be compared" % b)
    base = base_params()
    return dict(programs=progs, disagreements_checked=int(total.extra.get("disagreements_checked", 0)),
                parameters_in_space=len(base), families=len(families()), backends=BACKENDS,
                option_sets={b: [o["id"] for o in optsets(b)] for b in BACKENDS},
                name_kind_windows=[seed % NAMEKINDS] if tier == "quick" else list(range(NAMEKINDS)),
                window=seed % NAMEKINDS, selections=len(select_queries()),
                pair_representatives=len(representatives(tier)),
                export_histories=dict(
                    histories_per_export=nh, executed=int(h.get("after:histories", 0)),
                    earlier_exports=["%s/%s" % x for x in all_optsets()],
                    max_earlier_exports=max(len(x) for x in histories(tier)),
                    export_under_test="every back-end x option set x parameter family",
                    parameters_same_text_as_fresh_export=sum(v for k, v in h.items()
                                                             if k.endswith(":same-text-as-fresh-export")),
                    batches_read_back_because_text_differs=sum(v for k, v in h.items()
                                                               if k.endswith(":text-differs-from-fresh-export"))),
                selection_histories=dict(
                    forms={n: f for n, f in SEL_FORMS}, last_select="every form", earlier_selects="every sequence of "
                    "1..%d forms on the same exporter object" % max(len(e) for e, _ in sel_histories(tier)),
                    parse_between_selects=[False, True], histories_per_export=nsh,
                    executed=int(h.get("selhist:histories", 0)), back_ends=len(BACKENDS),
                    expectation="documented selection of the LAST select() call alone",
                    parameters_same_text_as_new_exporter=sum(
                        v for k, v in h.items() if k.startswith("selhist:") and k.endswith(":same-text-as-new-exporter")),
                    histories_read_back_because_text_differs=sum(
                        v for k, v in h.items() if k.startswith("selhist:") and k.endswith(":text-differs-from-new-exporter"))),
                bounds=dict(dtypes=DTYPES, shapes=["scalar", [3], [2, 3], [2, 2, 2]], unit=[None, UNIT],
                            name_kinds=["p", "grp.p", "box.cellSize.p"]),
                caps_hit=[])


MANIFEST = dict(
    text="Translation validation of the nine configuration exporters: every parameter of the bounded space (11 data "
         "types/widths x {scalar,[3],[2,3],[2,2,2]} x value alphabets incl. width maxima, non-dyadic decimals, blanks, "
         "quotes, 30 strings made of separator/delimiter characters (', ' ; [ ] ( ) = : # ' { } $ ` \\ % & ! * | and "
         "leading/trailing blanks; scalar and as array element of every rank), 22 backslash/escape strings (backslash "
         "before each character special in a back-end's quoting rules, trailing backslash, command substitution, tab), "
         "11 non-ASCII strings (Latin-1, BMP, astral plane), none x how the value got there (defined / modified with "
         "the same, another value or another unit / declared then assigned; every dtype, scalar and [2,3]) x unit on/off x flat/nested names) is exported through every back-end and option set (rename, "
         "units, define/const/constexpr, export, guard/module) and the exported text is compiled / loaded by the "
         "format's own tool (gcc, g++, gfortran, rustc, bash, json, yaml, tomllib, DIP re-parse); symbol, declared "
         "type/width/sign, shape and every element by index are compared with the environment. Uncompilable batches "
         "are delta-debugged down to single parameters. Selections by query/tag and ordered pairs are covered. "
         "Histories of exports of ONE environment object: every back-end x option set is exported after every single "
         "earlier export (22 x 22 ordered option-set pairs incl. the same exporter twice; thorough: also after every "
         "ordered pair of earlier back-ends, 81 x 22) for every parameter family and compared with the environment as "
         "it was parsed (an exporter that rewrites the environment's type/value objects is seen by the next export). "
         "Histories of selections on ONE live exporter object: every sequence of 1..2 (thorough 1..3) earlier select() "
         "calls out of 8 forms (no argument, query '*', 'box.*', 'grp.*', a single path, tags ['sel'], tags ['other'], "
         "query+tags), with and without a parse() after each earlier select, followed by every last form, for every "
         "back-end (144 histories x 8 last forms x 9 back-ends in quick); the export must contain exactly the "
         "documented selection of the LAST call (an exporter that remembers or merges query/tags of earlier calls, or "
         "keeps data of an earlier parse(), is seen).",
    note="Trusted: the compilers/loaders as reference semantics, printer programs that dispatch on the declared type "
         "in the target language, float32 compared after rounding (1 ulp). Not demanded: Fortran signedness, Rust "
         "f128, none where the documentation is silent, line length, warnings. Quick explores one name-kind window "
         "(seed mod 3), thorough all three plus reversed batch order. Histories: an export whose text is identical to "
         "the fresh export's text is decided by the batch-phase read-back of that text; earlier exports use no "
         "select(); longer histories than one (thorough: two) earlier exports are not explored. Selection histories "
         "use the first option set of each back-end and the 20-parameter selection environment; longer than two "
         "(thorough: three) earlier select() calls are not explored.",
    technique="bounded exhaustive enumeration + compile-and-run read-back with delta debugging",
)
