#!/bin/bash
# usage: tools/run_mutants.sh [pattern]   -> runs every mutants/<Cxx>_*.patch through tools/mutant.sh, appends to mutants/RESULTS.txt
cd /verif
pat=${1:-C}
for m in mutants/${pat}*.patch; do
  prop=$(basename $m | cut -d_ -f1)
  tools/mutant.sh $m $prop 2>&1 | grep '^MUTANT' | cut -c1-260 | tee -a mutants/RESULTS.txt
done
