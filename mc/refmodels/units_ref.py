"""R-units: reference model of the unit tables (DESIGN.md section 2).

Built from the *published tables only*: the rows of ``UNIT_PREFIXES``, ``UNIT_STANDARD`` and ``QUANTITY_UNITS`` are
read as data, once per process, before any case runs (``load()``).  Nothing of the library's parsing or conversion
code is used: no regular expression, no ``BaseUnits``, no ``Fraction`` of the library.

Vocabulary
    symbol      key of UNIT_STANDARD ('m', 'Pa', '[c]') or of QUANTITY_UNITS ('#SLEN')
    spelling    symbol, or admissible prefix + symbol ('km', 'daar'); ``ref.spellings`` is the dictionary of all valid
                spellings and *is* the specification of "a symbol in the tables / a prefix the unit admits"
    term        (spelling, exponent) with ``fractions.Fraction`` exponent
    factor      conversion factor to the library's base (m, g, s, K, C, cd, mol, rad), from the magnitude column
    dims        tuple of 8 ``fractions.Fraction`` in the order of DIMENSION_LIST

Public API (stable; other checks import it)
    ref = load()                           singleton, build once in init_worker
    ref.schema_errors / ref.schema_cases() cells of the tables that break SCHEMA; such rows are left out of the model and
                                           must be reported by the check (sub 'table', behaviour 'malformed-row')
    ref.prefixes                           {prefix: float factor}, table order
    ref.symbols                            {symbol: Symbol}, table order (UNIT_STANDARD then QUANTITY_UNITS)
    ref.spellings                          {text: Spelling}
    ref.admissible(symbol)                 list of prefixes the symbol admits (table order)
    ref.is_logarithmic(x) / is_offset(x) / is_linear(x) / is_system(x)     x = symbol or spelling text
    ref.linear_spellings(system=True)      spellings usable in linear conversion (no logarithmic / offset units)
    ref.groups(spellings)                  {dims: [spelling text, ...]} dimension groups
    ref.factor(text) / ref.dims(text)      of one spelling
    ref.term_factor(text, exp)             float (prefix*unit)**exp
    ref.terms_factor(terms, numbers=())    (value|None, log10) of a product of terms (None when outside float range)
    ref.terms_dims(terms)                  dims of a product of terms
    ref.merge(terms)                       {spelling: summed exponent} without zero entries
    ref.split_atom(text)                   reference reading of 'km-3:2' -> (Spelling, Fraction) or None
    ref.split_expression(text)             reference reading of a canonical text 'km2*s-1' -> merged dict or None
    dims_from_library(list)                library Dimensions.value() list -> tuple of Fractions
    close(a, b, rel)                       relative comparison used by the checks
"""
import math
import re
from fractions import Fraction as F

NDIM = 8


class Symbol:
    __slots__ = ("symbol", "factor", "dims", "prefix_rule", "kind", "system", "definition", "name")

    def __init__(self, symbol, factor, dims, prefix_rule, kind, system, definition, name):
        self.symbol = symbol            # table key
        self.factor = factor            # float, magnitude column
        self.dims = dims                # tuple of 8 Fractions
        self.prefix_rule = prefix_rule  # True (all), False (none) or list of prefixes
        self.kind = kind                # 'linear' | 'offset' | 'logarithmic'
        self.system = system            # True for QUANTITY_UNITS ('#...')
        self.definition = definition    # definition column (str, None, or class name)
        self.name = name

    def __repr__(self):
        return "Symbol(%s)" % self.symbol


class Spelling:
    __slots__ = ("text", "prefix", "symbol", "factor", "exact", "dims", "kind", "system")

    def __init__(self, text, prefix, sym, pfac):
        self.text = text
        self.prefix = prefix                       # None or prefix string
        self.symbol = sym.symbol
        # the library multiplies prefix and unit factor in floating point; keep both the float and the exact value
        self.factor = sym.factor if prefix is None else pfac * sym.factor
        self.exact = F(sym.factor) if prefix is None else F(pfac) * F(sym.factor)
        self.dims = sym.dims
        self.kind = sym.kind
        self.system = sym.system

    def __repr__(self):
        return "Spelling(%s)" % self.text


def _frac(v):
    if isinstance(v, tuple):
        return F(int(v[0]), int(v[1]))
    if isinstance(v, bool) or not isinstance(v, int):
        if isinstance(v, float) and v == int(v):
            return F(int(v))
        raise ValueError("unexpected dimension entry %r" % (v,))
    return F(v)


def dims_from_library(lst):
    """Dimensions.value() gives ints or (num, den) tuples; only the rational *value* is compared, not its shape."""
    if len(lst) != NDIM:
        raise ValueError("dimension vector of length %d" % len(lst))
    return tuple(_frac(v) for v in lst)


def dims_to_json(d):
    return [int(x) if x.denominator == 1 else "%d/%d" % (x.numerator, x.denominator) for x in d]


def close(a, b, rel=1e-12):
    if a == b:
        return True
    if isinstance(a, complex) or isinstance(b, complex):
        return False
    try:
        if math.isnan(a) or math.isnan(b) or math.isinf(a) or math.isinf(b):
            return False
    except TypeError:
        return False
    return abs(a - b) <= rel * max(abs(a), abs(b))


_ATOM = re.compile(r"^(?P<sym>.*[^0-9:+\-])(?P<exp>[+-]?[0-9]+(?::[0-9]+)?)?$", re.S)


def _is_number(v):
    if isinstance(v, bool):
        return False
    try:
        import numpy as np
        if isinstance(v, (np.integer, np.floating)):
            return True
    except Exception:
        pass
    return isinstance(v, (int, float))


def _good_magnitude(v):
    return _is_number(v) and math.isfinite(float(v)) and float(v) > 0


def _good_dims(v, fractions=True):
    if not isinstance(v, (list, tuple)) or len(v) != NDIM:
        return False
    for x in v:
        if isinstance(x, tuple):
            if not (fractions and len(x) == 2 and all(isinstance(c, int) and not isinstance(c, bool) for c in x)
                    and x[1] != 0):
                return False
        elif isinstance(x, bool) or not isinstance(x, int):
            if not (isinstance(x, float) and x == int(x)):
                return False
    return True


SCHEMA = {
    "magnitude": "a finite number > 0",
    "dimensions": "a list of %d integers or (numerator, denominator) pairs" % NDIM,
    "prefixes": "True, False or a list of keys of UNIT_PREFIXES",
    "definition": "None, a text or a unit-type class",
    "row": "(magnitude, list of %d integers)" % NDIM,
    "spelling": "no spelling producible in two ways (prefix + symbol)",
}


class UnitsRef:

    def __init__(self):
        """Reads the tables.  Every cell is validated against SCHEMA first; a row with a malformed cell is NOT adopted
        as specification (its symbol is left out of ``symbols`` / ``spellings``) and is listed in ``schema_errors`` -
        the checks report each entry as an ordinary failure (sub 'table', behaviour 'malformed-row')."""
        from scinumtools.units import settings as st
        self.dimension_list = list(st.DIMENSION_LIST)
        if len(self.dimension_list) != NDIM:
            raise RuntimeError("DIMENSION_LIST changed")
        self.schema_errors = []          # [dict(table, key, column, value)]
        self.rows_validated = 0

        def bad(table, key, column, value):
            self.schema_errors.append(dict(table=table, key=key, column=column, value=repr(value)[:120]))

        self.prefixes = {}
        for p in st.UNIT_PREFIXES.keys():
            row = st.UNIT_PREFIXES[p]
            self.rows_validated += 1
            ok = True
            if not _good_magnitude(row.magnitude):
                bad("UNIT_PREFIXES", p, "magnitude", row.magnitude)
                ok = False
            if not _good_dims(row.dimensions, fractions=False) or any(x != 0 for x in row.dimensions):
                bad("UNIT_PREFIXES", p, "dimensions", row.dimensions)
                ok = False
            if ok:
                self.prefixes[p] = float(row.magnitude)
        self.symbols = {}
        for s in st.UNIT_STANDARD.keys():
            row = st.UNIT_STANDARD[s]
            self.rows_validated += 1
            ok = True
            d = row.definition
            if isinstance(d, type):
                n = d.__name__
                kind = "offset" if n.startswith("Temperature") else "logarithmic" if n.startswith("Logarithmic") \
                    else "special"
                d = n
            elif d is None or isinstance(d, str):
                kind = "linear"
            else:
                bad("UNIT_STANDARD", s, "definition", d)
                ok = False
            rule = row.prefixes
            if isinstance(rule, list):
                rule = list(rule)
                if not all(isinstance(x, str) and x in st.UNIT_PREFIXES.keys() for x in rule) \
                        or len(set(rule)) != len(rule):
                    bad("UNIT_STANDARD", s, "prefixes", row.prefixes)
                    ok = False
            elif rule is not True and rule is not False:
                bad("UNIT_STANDARD", s, "prefixes", row.prefixes)
                ok = False
            if not _good_magnitude(row.magnitude):
                bad("UNIT_STANDARD", s, "magnitude", row.magnitude)
                ok = False
            if not _good_dims(row.dimensions):
                bad("UNIT_STANDARD", s, "dimensions", row.dimensions)
                ok = False
            if ok:
                self.symbols[s] = Symbol(s, float(row.magnitude), tuple(_frac(v) for v in row.dimensions), rule, kind,
                                         False, d, row.name)
        for s, val in st.QUANTITY_UNITS.items():
            self.rows_validated += 1
            if not (isinstance(val, (tuple, list)) and len(val) == 2 and _good_magnitude(val[0])
                    and _good_dims(val[1], fractions=False)) or not isinstance(s, str) or s in st.UNIT_STANDARD.keys():
                bad("QUANTITY_UNITS", s, "row", val)
                continue
            mag, dims = val
            self.symbols[s] = Symbol(s, float(mag), tuple(_frac(v) for v in dims), False, "linear", True, None, s)
        # dictionary of valid spellings; the table must be unambiguous
        self.spellings = {}
        for s, sym in self.symbols.items():
            for p in [None] + self.admissible(s):
                text = s if p is None else p + s
                if text in self.spellings:
                    other = self.spellings[text]
                    bad("UNIT_STANDARD", s, "spelling", "%s = %s+%s and %s+%s" % (text, p, s, other.prefix, other.symbol))
                    continue
                self.spellings[text] = Spelling(text, p, sym, None if p is None else self.prefixes[p])

    def schema_cases(self):
        """[(case, expected, observed)] for every malformed cell: input of the checks' 'table' failure records"""
        return [(dict(sub="table", table=e["table"], key=e["key"], column=e["column"]), SCHEMA[e["column"]], e["value"])
                for e in self.schema_errors]

    @staticmethod
    def replay_schema_case(case):
        """re-read the tables (not the cached model) and return (expected, observed) if the cell is still malformed"""
        fresh = UnitsRef()
        for c, exp, obs in fresh.schema_cases():
            if (c["table"], c["key"], c["column"]) == (case["table"], case["key"], case["column"]):
                return exp, obs
        return None

    # ---------------------------------------------------------------- table queries
    def admissible(self, symbol):
        rule = self.symbols[symbol].prefix_rule
        if rule is True:
            return list(self.prefixes)
        if rule is False:
            return []
        return [p for p in self.prefixes if p in rule]

    def _sym(self, x):
        if x in self.spellings:
            return self.symbols[self.spellings[x].symbol]
        return self.symbols[x]

    def is_logarithmic(self, x):
        return self._sym(x).kind == "logarithmic"

    def is_offset(self, x):
        return self._sym(x).kind == "offset"

    def is_linear(self, x):
        return self._sym(x).kind == "linear"

    def is_system(self, x):
        return self._sym(x).system

    def factor(self, text):
        return self.spellings[text].factor

    def dims(self, text):
        return self.spellings[text].dims

    def linear_spellings(self, system=True):
        return [t for t, sp in self.spellings.items() if sp.kind == "linear" and (system or not sp.system)]

    def groups(self, spellings=None):
        out = {}
        for t in (self.linear_spellings() if spellings is None else spellings):
            out.setdefault(self.spellings[t].dims, []).append(t)
        return out

    # ---------------------------------------------------------------- algebra
    def term_factor(self, text, exp):
        """(prefix factor * unit factor) ** exp as a float; exact rational arithmetic for integral exponents."""
        sp = self.spellings[text]
        exp = F(exp)
        if exp.denominator == 1:
            return float(sp.exact ** int(exp))
        return math.pow(sp.factor, exp.numerator / exp.denominator)

    def terms_factor(self, terms, numbers=()):
        """Product of term factors and plain numbers.  Returns (value, log10|value|); value is None when the exact
        result (or a fractional-power intermediate) is outside the comfortable float range 1e-290..1e290."""
        exact = F(1)
        flt = 1.0
        lg = 0.0
        for n in numbers:
            exact *= F(n)
            lg += math.log10(abs(n))
        for text, exp in terms:
            sp = self.spellings[text]
            exp = F(exp)
            lg += float(exp) * math.log10(sp.factor)
            if exp.denominator == 1:
                exact *= sp.exact ** int(exp)
            else:
                flt *= math.pow(sp.factor, exp.numerator / exp.denominator)
        if abs(lg) > 290:
            return None, lg
        return float(exact) * flt, lg

    def terms_dims(self, terms):
        d = [F(0)] * NDIM
        for text, exp in terms:
            sd = self.spellings[text].dims
            exp = F(exp)
            for i in range(NDIM):
                d[i] += sd[i] * exp
        return tuple(d)

    def merge(self, terms):
        out = {}
        for text, exp in terms:
            out[text] = out.get(text, F(0)) + F(exp)
        return {k: v for k, v in out.items() if v != 0}

    # ---------------------------------------------------------------- reading canonical text back
    def split_atom(self, text):
        m = _ATOM.match(text)
        if not m or m.group("sym") not in self.spellings:
            return None
        e = m.group("exp")
        if e is None:
            exp = F(1)
        elif ":" in e:
            n, d = e.split(":")
            if int(d) == 0:
                return None
            exp = F(int(n), int(d))
        else:
            exp = F(int(e))
        return self.spellings[m.group("sym")], exp

    def split_expression(self, text):
        """Reference reading of a canonical product text ('km2*s-1').  None if any factor is not a valid atom."""
        if text is None:
            return {}
        terms = []
        for part in text.split("*"):
            a = self.split_atom(part)
            if a is None:
                return None
            terms.append((a[0].text, a[1]))
        return self.merge(terms)


def exp_text(exp):
    """canonical spelling of an exponent (as the documentation writes it): '', '2', '-1', '1:2', '-3:2'"""
    exp = F(exp)
    if exp == 1:
        return ""
    if exp.denominator == 1:
        return str(exp.numerator)
    return "%d:%d" % (exp.numerator, exp.denominator)


_REF = None


def load():
    """Build (once per process) and return the reference model.  Call before any library case runs."""
    global _REF
    if _REF is None:
        _REF = UnitsRef()
    return _REF
