#!/bin/bash
# usage: tools/seed_eval.sh <seed-id> <Cxx> <worktree> <n> [tier]
# Confirms a seeded change (worktree/change_<n>.patch + demo_<n>.py): baseline suite passes with it, demo fails with it and
# passes without it; then runs the check against a scratch copy with the change; stores everything under seeded/<seed-id>/.
id=$1; prop=$2; wt=$3; n=$4; tier=${5:-quick}
out=/verif/seeded/$id; mkdir -p $out
d=/dev/shm/seed-$$-$RANDOM; mkdir -p $d
rsync -a --exclude .git /repo/ $d/repo/
if [ -f "$wt/change_$n.patch" ]; then
cp $wt/change_$n.patch $out/patch.diff
sed "s#'$wt/src'#__import__('os').environ.get('SCINUM_SRC','/repo/src')#; s#\"$wt/src\"#__import__('os').environ.get('SCINUM_SRC','/repo/src')#" $wt/demo_$n.py > $out/demo.py
fi   # else: re-evaluate the stored seed (patch.diff, demo.py already under seeded/<id>)
SCINUM_SRC=$d/repo/src /venv/bin/python -W ignore $out/demo.py >/dev/null 2>&1; demo_clean=$?
if ! (cd $d/repo && patch -p1 -s < $out/patch.diff); then echo "SEED $id PATCH-FAILED"; rm -rf $d; exit 2; fi
SCINUM_SRC=$d/repo/src /venv/bin/python -W ignore $out/demo.py > $d/demo.out 2>&1; demo_mut=$?
base=$(/verif/tools/baseline.sh $d/repo | grep -v conda | tail -1)
echo "$base" | grep -q "218 passed" || base=$(/verif/tools/baseline.sh $d/repo | grep -v conda | tail -1)
res=$(cd /verif && VERIF_REPO=$d/repo VERIF_EVIDENCE_DIR=$d/evidence VERIF_REPLAY_DIR=$d/replays ./run $prop --tier $tier --workers ${WORKERS:-8} 2>&1 | grep -v conda)
viol=$(echo "$res" | grep -c '^VIOLATION')
first=$(echo "$res" | grep -B1 '^VIOLATION' | head -1 | cut -c1-300)
harn=$(echo "$res" | grep -c HARNESS)
[ -f $out/meta.json ] && cp $out/meta.json $d/meta.old
cat > $out/meta.json <<EOT
{"id": "$id", "property": "$prop", "source": "independent sub-agent given only the property text and a scratch worktree",
 "baseline_with_change": "$base", "demo_exit_unchanged": $demo_clean, "demo_exit_with_change": $demo_mut,
 "check_cmd": "VERIF_REPO=<scratch copy with patch> ./run $prop --tier $tier", "evaluated_at_repo_commit": "$(git -C /repo rev-parse --short HEAD)", "check_violations": $viol, "check_harness_errors": $harn,
 "detected": $([ $viol -gt 0 ] && echo true || echo false),
 "first_report": $(echo "$first" | /venv/bin/python -c 'import json,sys;print(json.dumps(sys.stdin.read().strip()))')}
EOT
if [ -f $d/meta.old ]; then /venv/bin/python - $d/meta.old $out/meta.json <<'PYEOF'
import json,sys
o=json.load(open(sys.argv[1])); m=json.load(open(sys.argv[2]))
for k in ('needs_to_manifest','breaks_property','round','note','detected_by_other_property_check'):
    if k in o: m[k]=o[k]
if o.get('detected') is False and m.get('detected'):
    m['history']='missed by the check as it stood when the seed was produced; detected after the check was strengthened'
elif 'history' in o: m['history']=o['history']
json.dump(m,open(sys.argv[2],'w'),indent=1)
PYEOF
fi
echo "SEED $id prop=$prop baseline=[$base] demo(clean/mut)=$demo_clean/$demo_mut violations=$viol harness=$harn detected=$([ $viol -gt 0 ] && echo yes || echo NO) :: $first"
rm -rf $d
