"""C14 - the last assignment wins, in the units and type of the definition.

E2 bounded enumeration on the real parser.  A program is: optional custom-unit line, a sentinel node, the FIRST
OCCURRENCE of node `a` (definition with a normal / falsy / none value, or declaration), another sentinel, then every
sequence of 1..3 MODIFICATIONS of `a` (typed or untyped, value from the type's alphabet including 0, negative, false,
'', none, unit omitted / same / two other units of the same dimension).  The expected environment is computed from the
generator's AST by mc/refmodels/dip_gen_a.py (exact Fraction arithmetic over hand-written unit factors).
Negative programs (must make parse() fail): typed modification with another data type, untyped word for a number or
a boolean, unit of another dimension, assignment to a `!constant` node, declaration never assigned, modification of
an undefined node - alone, after and before a valid modification.
Constraints: scalar int / float nodes in m / cm carrying an option list that holds every reachable value (written in
the unit of the definition or in another unit) and / or a condition, so that the validation pass of parse() runs.
Functions: a node v computed by a DIP function (DIP.add_function) that converts, returns or reads node a; node a must
keep the unit / value / type of its definition.
Injection: the first occurrence of a is `a = {?src}`, `{?src}[1:]` or `{?src}[1]` (unit taken from src), then modified.
Nonlinear: float nodes (scalar, array; defined, declared) in K / Cel / degF (affine, exact Fraction reference) and in
B / dB / PR (logarithmic; only the exact levels 0, -2, 4 B = 1, 0.01, 10000 PR are written).
Placements: root; inside a group (indented); group + dotted-path modifications; group re-opened; DIP(env) chain;
imported (group `bag` imports `{?g.*}` after the modifications: bag.a must be what g.a is at that line); sourced (the
program is a source FILE, the parsed text is `$source src = <file>` + `bag / {src?g.*}`; families with the custom unit
are left out: a unit defined in the source file is not demanded to be known to the importing text).

Integer nodes in cm / mm are modified with values (290, -290, 7000, 17000) whose conversion from mm / um is a whole number
exactly but not in binary floating point.
Not demanded (left out): `none` written with a unit as the FINAL assignment (as an intermediate assignment, in the same
or another unit of the dimension, it is enumerated: the later assignments fully determine the result); a unit on a modification of a node defined without unit; integer
nodes whose converted value is not integral; typed modifications spelling another width of the same type or other
dimensions ([2] vs [3]); scalar <-> array changes; numbers as boolean values; non-linear units (C05).
"""
import itertools
from fractions import Fraction

from ..common import Shard, failure, outcome, HarnessError
from .. import isolation
from ..refmodels import dip_gen_a as G

PROPERTY = "C14"
LEVEL = "exploration"
RULE = ("case = (family of the first occurrence, sequence of modifications, placement) or a negative program; every "
        "case is a distinct AST (distinct text is re-checked per shard); non-trivial = >= 1 modification or negative "
        "step; quick enumerates all sequences of length <= 2, length 3 over a reduced core alphabet for every family "
        "and length 3 over the full alphabet for the families of window seed % NWIN; thorough enumerates all windows")
ASSUMPTIONS = [
    "unit factors written by hand (m, cm, km, J, erg, eV, s; custom unit [cu] = 0.5 m) are the SI definitions",
    "converted values are compared with relative tolerance 1e-12, unconverted values exactly (10 == 10.0 allowed)",
    "the observation is parse() followed by env.data(Format.TYPE / TUPLE): an exception from either counts as "
    "'no environment returned'",
    "unit tables restored (mc/isolation.py) after every case that raised or used the custom unit",
]

NWIN = 26
OTHER = {"m": ("cm", "km"), "cm": ("mm", "[cu]"), "J": ("erg", "eV"), "[cu]": ("m", "km"), "mm": ("um", "cm"),
         # affine (temperature) and logarithmic (level of a power ratio) units
         "K": ("Cel", "degF"), "Cel": ("K", "degF"), "B": ("PR", "dB"), "PR": ("B", "dB")}
WRONG = {"m": "s", "cm": "J", "J": "m", "[cu]": "s", "mm": "s", "K": "m", "Cel": "m", "B": "m", "PR": "m"}
LEVEL_UNITS = ("B", "dB", "PR")
# the three values of a level family are the levels 0 B, -2 B and 4 B, written in the scale of the unit of the line
LEVEL_TEXTS = {"B": ("0", "-2", "4"), "dB": ("0", "-20", "40"), "PR": ("1", "0.01", "10000")}
# integer nodes defined in cm / mm get values whose conversion mm -> cm, um -> mm is a whole number exactly (selected by
# the Fraction reference) but NOT in binary floating point (290 mm = 28.999999999999996 cm, 7000 um = 6.999999999999999 mm)
INEXACT_UNITS = ("cm", "mm")


# ------------------------------------------------------------------------------------------------ value alphabets
def _num(text, base):
    fr = Fraction(text)
    return G.lit(text, int(fr) if base == "int" else float(fr), exact=fr)


def _arr(texts, base):
    frs = [Fraction(t) for t in texts]
    vals = [int(f) if base == "int" else float(f) for f in frs]
    return G.lit("[" + ",".join(texts) + "]", vals, "array", exact=frs)


def values(base, shape, unit=None):
    """modification values of a family: list of (tag, LIT); for level units `unit` is the unit the literal is written in"""
    if unit in LEVEL_UNITS:
        z, n, p = LEVEL_TEXTS[unit]
        if shape == "scalar":
            return [("zero", _num(z, base)), ("negative", _num(n, base)), ("positive", _num(p, base))]
        return [("zero", _arr([z, z], base)), ("negative", _arr([z, n], base)), ("positive", _arr([p, z], base))]
    if base == "int" and unit in INEXACT_UNITS:
        if shape == "scalar":
            return [("zero", _num("0", base)), ("negative", _num("-290", base)), ("positive", _num("7000", base))]
        return [("zero", _arr(["0", "0"], base)), ("negative", _arr(["290", "-290"], base)),
                ("positive", _arr(["7000", "17000"], base))]
    if base in ("int", "float"):
        pos = "7" if base == "int" else "7.5"
        if shape == "scalar":
            return [("zero", _num("0", base)), ("negative", _num("-2", base)), ("positive", _num(pos, base))]
        return [("zero", _arr(["0", "0"], base)), ("negative", _arr(["0", "-2"], base)),
                ("positive", _arr([pos, "0"], base))]
    if base == "bool":
        if shape == "scalar":
            return [("false", G.lit("false", False)), ("true", G.lit("true", True))]
        return [("false", G.lit("[false,false]", [False, False], "array")),
                ("true", G.lit("[true,false]", [True, False], "array"))]
    if shape == "scalar":
        return [("empty", G.lit("''", "")), ("word", G.lit("x", "x")), ("quoted", G.lit("'a b'", "a b"))]
    return [("empty", G.lit('["",""]', ["", ""], "array")), ("word", G.lit('["x",""]', ["x", ""], "array")),
            ("quoted", G.lit("'[\"a b\", \"c\"]'", ["a b", "c"], "array"))]


NONE = G.lit("none", None)


def first_value(base, shape, variant):
    """value of the definition: normal / falsy / none (the injected definitions have the normal value)"""
    if variant in INJECTIONS:
        variant = "normal"
    if variant == "none":
        return NONE
    if base in ("int", "float"):
        t = {"normal": "5", "falsy": "0"}[variant] if base == "int" else {"normal": "2.5", "falsy": "0"}[variant]
        return _num(t, base) if shape == "scalar" else _arr([t, "6"], base)
    if base == "bool":
        v = variant == "normal"
        t = "true" if v else "false"
        return G.lit(t, v) if shape == "scalar" else G.lit("[%s,%s]" % (t, t), [v, v], "array")
    if variant == "normal":
        return G.lit("init", "init") if shape == "scalar" else G.lit('["p","q"]', ["p", "q"], "array")
    return G.lit("''", "") if shape == "scalar" else G.lit('["",""]', ["", ""], "array")


# first occurrence = definition by injection of (a slice of) another node `src`; a gets the normal first value
INJECTIONS = {"inj": "{?src}", "inj-slice": "{?src}[1:]", "inj-item": "{?src}[1]"}


def injection_lines(fam):
    """(definition of src, literal of a) for a family whose first occurrence is an injection"""
    kw, unit, shape, first, variant = fam
    base = G.TYPEINFO[kw][3]
    val = first_value(base, shape, "normal")
    if variant == "inj":
        src_lit, dims = val, "[2]"
    else:
        arr = first_value(base, "array", "normal")
        lead = {"int": ("4", 4), "float": ("1.5", 1.5), "bool": ("false", False)}[base]
        inner = arr["text"][1:-1]
        src_lit = G.lit("[%s,%s]" % (lead[0], inner), [lead[1]] + arr["value"], "array")
        dims = "[3]"
    src = dict(k="def", d=0, name="src", type=kw, dims=dims, lit=src_lit, unit=unit)
    L = G.lit(INJECTIONS[variant], val["value"], val["kind"])
    return src, L


def injection_families():
    out = []
    for kw, units in (("int", (None, "cm")), ("float", (None, "cm")), ("bool", (None,))):
        for unit in units:
            out.append((kw, unit, "scalar", "def", "inj-item"))
            out.append((kw, unit, "array", "def", "inj-slice"))
            out.append((kw, unit, "array", "def", "inj"))
    return out


def nonlinear_families():
    """float nodes in temperature (affine) and level (logarithmic) units"""
    out = []
    for unit in ("K", "Cel", "B", "PR"):
        for shape in ("scalar", "array"):
            out.append(("float", unit, shape, "def", "normal"))
            out.append(("float", unit, shape, "decl", None))
    return out


# ------------------------------------------------------------------------------------------------ families
def families():
    """(kw, unit, shape, first, variant)  first in def/decl; variant of the definition value"""
    fams = []
    for kw in ("int", "float"):
        for unit in (None, "m", "cm", "J", "[cu]"):
            for shape in ("scalar", "array"):
                fams.append((kw, unit, shape, "def", "normal"))
                fams.append((kw, unit, shape, "decl", None))
            fams.append((kw, unit, "scalar", "def", "falsy"))
            fams.append((kw, unit, "scalar", "def", "none"))
    for shape in ("scalar", "array"):
        fams.append(("int", "mm", shape, "def", "normal"))
        fams.append(("int", "mm", shape, "decl", None))
    for kw in ("float32", "int64", "uint16"):
        fams.append((kw, "m", "scalar", "def", "normal"))
        fams.append((kw, None, "scalar", "decl", None))
    for kw in ("bool", "str"):
        for shape in ("scalar", "array"):
            fams.append((kw, None, shape, "def", "normal"))
            fams.append((kw, None, shape, "decl", None))
        fams.append((kw, None, "scalar", "def", "falsy"))
        fams.append((kw, None, "scalar", "def", "none"))
    return fams


def steps(fam, core=False):
    """alphabet of valid modification steps of a family: (typed, value tag, unit choice)
    unit choice: 'omit' | 'same' | 'o1' | 'o2'"""
    kw, unit, shape, first, variant = fam
    base = G.TYPEINFO[kw][3]
    tags = [t for t, _ in values(base, shape, unit)]
    out = []
    if core:
        vt = [tags[0], tags[-1]]
        uc = ["omit", "o1"] if unit else ["omit"]
        for v in vt:
            for u in uc:
                out.append((False, v, u))
        out.append((False, "none", "omit"))
        out.append((True, tags[0], "omit"))
        if unit:
            out.append((False, "none", "o1"))        # only as an intermediate assignment, see final_ok
        return out
    uc = ["omit", "same", "o1", "o2"] if unit else ["omit"]
    for typed in (False, True):
        for v in tags:
            for u in uc:
                out.append((typed, v, u))
        out.append((typed, "none", "omit"))
    if unit:
        # `none <unit>`: what it leaves behind as the FINAL assignment is not demanded, but as an INTERMEDIATE
        # assignment the statement fully determines the result of the later assignments
        for typed in (False, True):
            for u in ("same", "o1", "o2"):
                out.append((typed, "none", u))
    return out


def final_ok(seq):
    """a sequence is generated only if its last step is not `none` written with a unit"""
    return not seq or not (seq[-1][1] == "none" and seq[-1][2] != "omit")


def bad_steps(fam):
    """steps that must make parsing fail: (reason, typed keyword or None, LIT, unit)"""
    kw, unit, shape, first, variant = fam
    base = G.TYPEINFO[kw][3]
    dims = "[2]" if shape == "array" else None
    out = []
    others = {"int": [("float", "7.5", 7.5), ("float", "0", 0.0), ("str", "x", "x"), ("bool", "true", True),
                      ("bool", "false", False)],
              "float": [("int", "7", 7), ("int", "0", 0), ("str", "x", "x"), ("str", "''", ""),
                        ("bool", "false", False)],
              "bool": [("int", "1", 1), ("int", "0", 0), ("float", "0", 0.0), ("str", "true", "true")],
              "str": [("int", "7", 7), ("int", "0", 0), ("float", "2.5", 2.5), ("bool", "false", False)]}[base]
    if shape == "scalar":
        for okw, t, v in others:
            out.append(("dtype-typed", okw, G.lit(t, v), None))
        if base in ("int", "float", "bool"):
            out.append(("dtype-untyped-word", None, G.lit("x", "x", "word"), None))
    else:
        arr = {"int": ("[7,0]", [7, 0]), "float": ("[7.5,0]", [7.5, 0.0]), "bool": ("[true,false]", [True, False]),
               "str": ('["x",""]', ["x", ""])}
        for okw in ("int", "float", "bool", "str"):
            if okw != base:
                out.append(("dtype-typed", okw + dims, G.lit(arr[okw][0], arr[okw][1], "array"), None))
    if unit:
        vals = values(base, shape, unit)
        for typed in (None, kw + (dims or "")):
            out.append(("dimension", typed, vals[0][1], WRONG[unit]))
            out.append(("dimension", typed, vals[2][1], WRONG[unit]))
    return out


# ------------------------------------------------------------------------------------------------ program construction
PLACEMENTS = ("root", "group", "dotted", "regroup", "chain", "imported", "sourced")
# imported: node g.a is defined and modified, then group `bag` imports `{?g.*}`: bag.a must be what g.a is at that line
# sourced:  the same program is a SOURCE file; the parsed text holds only `$source src = <file>` and `bag / {src?g.*}`
IMPORT_TAIL = [dict(k="group", d=0, name="bag"), dict(k="import", d=1, text="{?g.*}", src="g")]


def _mod_line(fam, step, name, d):
    kw, unit, shape, first, variant = fam
    typed, vtag, uc = step
    base = G.TYPEINFO[kw][3]
    mu = None
    if uc == "same":
        mu = unit
    elif uc == "o1":
        mu = OTHER[unit][0]
    elif uc == "o2":
        mu = OTHER[unit][1]
    wu = (mu or unit) if unit in LEVEL_UNITS else unit
    L = NONE if vtag == "none" else dict(values(base, shape, wu))[vtag]
    return dict(k="mod", d=d, name=name, type=(kw if typed else None),
                dims=("[2]" if (typed and shape == "array") else None), lit=L, unit=mu)


def build(fam, seq, placement="root", bad=None, bad_at=None, constant=False, undefined=False, props=None,
          pre=None, post=None):
    """-> list of programs (one per DIP object of the chain), or None if the case is not demanded"""
    kw, unit, shape, first, variant = fam
    base = G.TYPEINFO[kw][3]
    dims = "[2]" if shape == "array" else None
    head = []
    uses_cu = unit == "[cu]" or any(s[2] in ("o1", "o2") and OTHER.get(unit, ("", ""))[("o1", "o2").index(s[2])]
                                    == "[cu]" for s in seq)
    if uses_cu and placement == "sourced":
        return None           # not demanded: a custom unit defined in the source file used by the importing text
    if uses_cu:
        head.append(dict(G.CU_LINE))
    head.append(dict(k="def", d=0, name="s", type="int", dims=None, lit=G.lit("1", 1), unit=None))
    head.extend(pre or [])
    inner = placement != "root"
    d0 = 1 if inner else 0
    if inner:
        head.append(dict(k="group", d=0, name="g"))
    if first == "def" and variant in INJECTIONS:
        src, L = injection_lines(fam)
        head.append(src)
        head.append(dict(k="def", d=d0, name="a", type=kw, dims=dims, lit=L, unit=unit, hide_unit=True))
    elif first == "def":
        head.append(dict(k="def", d=d0, name="a", type=kw, dims=dims, lit=first_value(base, shape, variant),
                         unit=unit))
    else:
        head.append(dict(k="decl", d=d0, name="a", type=kw, dims=dims, unit=unit))
    if constant:
        head.append(dict(k="const", d=d0 + 1))
    for text in (props or []):
        head.append(dict(k="prop", d=d0 + 1, text=text))
    head.append(dict(k="def", d=0, name="z", type="int", dims=None, lit=G.lit("9", 9), unit=None))
    tail = []
    if placement == "root":
        mname, md = "a", 0
    elif placement in ("dotted", "chain", "imported", "sourced"):
        mname, md = "g.a", 0
    elif placement == "group":
        # modifications inside the group: they have to come before the sentinel z (which closes the group)
        mname, md = "a", 1
    else:
        mname, md = "a", 1
        tail.append(dict(k="group", d=0, name="g"))
    mods = [_mod_line(fam, s, mname, md) for s in seq] + list(post or [])
    if bad is not None:
        reason, tkw, L, bu = bad
        tdims = None
        if tkw and "[" in tkw:
            tkw, tdims = tkw[:tkw.index("[")], tkw[tkw.index("["):]
        mods.insert(bad_at, dict(k="mod", d=md, name=mname, type=tkw, dims=tdims, lit=L, unit=bu))
    if undefined == "suffix":
        # the node is g.a; an untyped assignment to a root-level `a` names an undefined node
        mods.insert(bad_at, dict(k="mod", d=0, name="a", type=None, dims=None, lit=G.lit("3", 3), unit=None))
    elif undefined:
        mods.insert(bad_at, dict(k="mod", d=md, name=("g.b" if mname == "g.a" else "b"), type=None, dims=None,
                                 lit=G.lit("3", 3), unit=None))
    if placement == "group":
        z = head.pop()
        body = head + mods + [z]
        return [body]
    if placement == "chain":
        if first == "decl":
            # the first parse() must itself leave no declared node without value: it gets the first modification
            if len(mods) < 2:
                return None
            return [head + mods[:1], mods[1:]]
        return [head, mods] if mods else [head]
    if placement in ("imported", "sourced"):
        return [head + mods + [dict(ln) for ln in IMPORT_TAIL]]
    return [head + tail + mods]


def integral_ok(fam, params):
    """integer nodes: the converted value has to be integral, otherwise the case is not demanded"""
    for p in params:
        if p["base"] == "int" and p.get("converted"):
            vals = p["value"] if isinstance(p["value"], list) else [p["value"]]
            if any(v is not None and Fraction(v).denominator != 1 for v in vals):
                return False
    return True


def case_tags(fam, seq, placement, bad=None, constant=False, undefined=False):
    kw, unit, shape, first, variant = fam
    tags = {"type:" + G.TYPEINFO[kw][3], "placement:" + placement, "first:" + first}
    if shape == "array":
        tags.add("array")
    if variant in ("falsy", "none"):
        tags.add("definition-value:" + variant)
    for i, (typed, v, uc) in enumerate(seq):
        last = i == len(seq) - 1
        if v in ("zero", "false", "empty", "none"):
            tags.add(("last:" if last else "earlier:") + v)
        if v == "none" and uc != "omit":
            tags.add("earlier:none-with-unit")
        if uc in ("o1", "o2"):
            tags.add("conversion")
            if last:
                tags.add("last:conversion")
        if typed:
            tags.add("typed-mod")
    if bad is not None:
        tags.add("bad:" + bad[0])
        if bad[1]:
            tags.add("typed-mod")
        if bad[2]["value"] in (0, 0.0, False, "") or bad[2]["value"] in ([0, 0], [0.0, 0.0]):
            tags.add("bad-step-falsy-value")
    if constant:
        tags.add("bad:constant")
    if undefined:
        tags.add("bad:undefined-node")
    return tags


# ------------------------------------------------------------------------------------------------ constraints
CKINDS = ("opt-same", "opt-other", "cond", "opt-other+cond")
CONDITION = '!condition ("{?} > -100000000")'


def constrained_families():
    """scalar numeric nodes with a unit; (kw, unit, 'scalar', first, variant)"""
    out = []
    for kw in ("int", "float"):
        for unit in ("m", "cm"):
            out.append((kw, unit, "scalar", "def", "normal"))
            out.append((kw, unit, "scalar", "decl", None))
    return out


def value_steps(fam, core=False):
    """the steps of a family that assign a number (none cannot satisfy an option list or a condition)"""
    return [s for s in steps(fam, core) if s[1] != "none"]


def _final_a(fam, seq):
    """exact value of node a (in the unit of its definition) after seq, as a Fraction"""
    progs = build(fam, list(seq))
    pa = [p for p in G.interpret([ln for pr in progs for ln in pr]) if p["path"] == "a"][0]
    return Fraction(pa["value"])


def _decimal(fr):
    """exact decimal text of a Fraction whose denominator has only the factors 2 and 5"""
    k, scaled = 0, fr
    while scaled.denominator != 1:
        scaled, k = scaled * 10, k + 1
        if k > 30:
            raise HarnessError("value without finite decimal expansion: %r" % (fr,))
    if k == 0:
        return str(fr.numerator)
    digits = str(abs(scaled.numerator)).rjust(k + 1, "0")
    return ("-" if fr < 0 else "") + digits[:-k] + "." + digits[-k:]


def constraint_props(fam, ckind):
    """property lines behind the definition: an option list holding every value the node can get (written in the unit
    of the definition or in another unit of the dimension) and / or a condition that every value satisfies"""
    kw, unit, shape, first, variant = fam
    base = G.TYPEINFO[kw][3]
    props = []
    if ckind.startswith("opt"):
        ou = unit if ckind == "opt-same" else OTHER[unit][0]
        vals = set()
        if first == "def":
            vals.add(_final_a(fam, []))
        for s in value_steps(fam):
            v = _final_a(fam, [s])
            if base == "int" and v.denominator != 1:
                continue                       # never the final value of an integer node (not demanded, filtered)
            vals.add(v)
        for v in sorted(vals):
            w = v * G.UNITS[unit][0] / G.UNITS[ou][0]
            if base == "int" and w.denominator != 1:
                raise HarnessError("option of an integer node is not integral in %s: %r" % (ou, w))
            props.append("= %s %s" % (_decimal(w), ou))
    if ckind.endswith("cond"):
        props.append(CONDITION)
    return props


# ------------------------------------------------------------------------------------------------ functions
FN_KINDS = ("conv", "ret", "read")
FN_TARGET = {"m": "km", "cm": "m"}          # the unit the function converts node a into


def function_table(unit):
    """DIP functions (registered with DIP.add_function) that read ANOTHER node, written the documented way"""
    tu = FN_TARGET[unit]
    return {
        "conv": lambda data: data["a"].convert(tu).value,      # value of a in another unit
        "ret": lambda data: data["a"],                         # node a itself; the line converts it into its unit
        "read": lambda data: data["a"].value * 2,              # plain read access
    }


def function_lines(fam, seq, fn, pos):
    """(pre, post): definition of node v by a function of node a, at the end of the program; pos 'mod': v is defined
    before a and the function line is a typed modification"""
    kw, unit, shape, first, variant = fam
    a = _final_a(fam, seq)
    tu = FN_TARGET[unit]
    if fn in ("conv", "ret"):
        num, lu = a * G.UNITS[unit][0] / G.UNITS[tu][0], tu
    else:
        num, lu = a * 2, unit
    L = G.lit("(%s)" % fn, float(num), exact=num)
    pre = []
    if pos == "mod":
        pre.append(dict(k="def", d=0, name="v", type="float", dims=None, lit=G.lit("1", 1.0), unit=tu))
    post = [dict(k="mod" if pos == "mod" else "def", d=0, name="v", type="float", dims=None, lit=L, unit=lu,
                 approx=True)]
    return pre, post, num


# ------------------------------------------------------------------------------------------------ one case
def make_case(desc):
    fam = tuple(desc["fam"])
    seq = [tuple(s) for s in desc["seq"]]
    if desc["sub"] == "constraints":
        if desc.get("placement") == "chain" and fam[3] == "decl" and seq and G.TYPEINFO[fam[0]][3] == "int" \
                and _final_a(fam, seq[:1]).denominator != 1:
            return None, set()   # the first parse() of the chain would end on a non-integral integer (not demanded)
        progs = build(fam, seq, desc.get("placement", "root"), props=constraint_props(fam, desc["ckind"]))
        return progs, case_tags(fam, seq, desc.get("placement", "root")) | {"constraint:" + desc["ckind"]}
    if desc["sub"] == "functions":
        pre, post, num = function_lines(fam, seq, desc["fn"], desc["pos"])
        if num == 0 and desc["pos"] == "def":
            return None, set()       # not C14: a DEFINITION whose function returns 0 (single assignment)
        progs = build(fam, seq, "root", pre=pre, post=post)
        return progs, case_tags(fam, seq, "root") | {"function:" + desc["fn"], "function-line:" + desc["pos"]}
    bad = None
    if desc.get("bad") is not None:
        bad = bad_steps(fam)[desc["bad"]]
    progs = build(fam, seq, desc.get("placement", "root"), bad=bad, bad_at=desc.get("bad_at"),
                  constant=desc.get("constant", False), undefined=desc.get("undefined", False))
    tags = case_tags(fam, seq, desc.get("placement", "root"), bad, desc.get("constant", False),
                     desc.get("undefined", False))
    return progs, tags


def run_case(desc, sh=None, seen=None):
    progs, tags = make_case(desc)
    if progs is None:
        return None
    whole = [ln for p in progs for ln in p]
    try:
        exp = G.interpret(whole)
        reject = None
    except G.Rejected as e:
        exp, reject = None, str(e)
    if exp is not None and not integral_ok(tuple(desc["fam"]), exp):
        if sh is not None:
            sh.count("skipped:int-not-integral-after-conversion(not demanded)")
        return None
    sourced = desc.get("placement") == "sourced"
    if sourced:
        # the program without its import lines is the source file; the parsed text imports g.* from it into `bag`
        if exp is not None:
            exp = [p for p in exp if p["path"].startswith("bag.")]
        texts = [G.render(progs[0][:-len(IMPORT_TAIL)]), "$source src = %s\nbag\n  {src?g.*}"]
    else:
        texts = [G.render(p) for p in progs]
    key = "\n----\n".join(texts)
    if seen is not None:
        if key in seen:
            return None
        seen.add(key)
    sub = desc["sub"]
    fns = function_table(desc["fam"][1]) if sub == "functions" else None
    got = outcome(_execute_sourced, texts) if sourced else outcome(G.execute, texts, functions=fns)
    uses_cu = any(ln["k"] == "unitdef" for ln in whole)
    if got[0] == "err" or uses_cu:
        isolation.tables_restore()
    rec = None
    case = dict(desc=desc, text=key)
    if reject is not None:
        if got[0] == "ok":
            rec = failure(sub, case, "parse() fails: " + reject, G.observed_view(got[1]), tags=tags,
                          behaviour="accepted")
        elif got[1] == "EnvironmentUnreadable":
            # the statement demands that parse() itself fails; here it returned an (unusable) environment
            rec = failure(sub, case, "parse() fails: " + reject, list(got), tags=tags,
                          behaviour="accepted-environment-unreadable")
        elif got[1] == "CaseTimeout":
            rec = failure(sub, case, "parse() fails: " + reject, list(got), tags=tags, behaviour="timeout")
    else:
        if got[0] == "err":
            rec = failure(sub, case, G.expected_view(exp), list(got), tags=tags, behaviour=G.error_class(got))
        else:
            diff = G.compare(exp, got[1])
            if diff == "value-differs" and desc.get("placement") in ("imported", "sourced"):
                diff = "imported-value-differs"
            elif diff == "value-differs":
                diff = _classify_value(desc, exp, got[1])
            if diff:
                rec = failure(sub, case, G.expected_view(exp), G.observed_view(got[1]), tags=tags, behaviour=diff)
    if sh is not None:
        sh.evaluations += 1
        sh.nontrivial += 1
        sh.count("sub=" + sub)
        sh.count("expect=" + ("reject:" + reject if reject else "accept"))
        sh.count("outcome=" + ("ok" if rec is None else rec["behaviour"]))
        sh.count("len=%d" % len(desc["seq"]))
        sh.count("placement=" + desc.get("placement", "root"))
        for t in ("last:zero", "last:none", "last:false", "last:empty", "conversion", "array", "typed-mod",
                  "earlier:none-with-unit"):
            if t in tags:
                sh.count("feature=" + t)
        if len(sh.samples) < 3 and len(desc["seq"]) == 3:
            sh.sample(dict(sub=sub, text=key))
        if rec:
            sh.fail(rec)
    return rec


def _execute_sourced(texts):
    """texts[0] is written to a per-process scratch file, texts[1] % path is parsed"""
    import os
    path = G.scratch_file()[:-4] + "-src.dip"
    with open(path, "w", encoding="utf-8", newline="") as f:
        f.write(texts[0])
    try:
        return G.execute([texts[1] % path])
    finally:
        os.remove(path)


def _classify_value(desc, exp, obs):
    """which wrong value did node a get: the definition's, the previous assignment's, or something else"""
    fam = tuple(desc["fam"])
    seq = [tuple(s) for s in desc["seq"]]
    pa = [p for p in exp if p["path"].endswith("a")][0]
    oa = [o for o in obs if o["path"] == pa["path"]]
    if not oa:
        return "value-differs"
    oa = oa[0]
    for n in range(len(seq) - 1, -1, -1):
        progs = build(fam, seq[:n], "dotted" if desc.get("placement") == "chain" else desc.get("placement", "root"))
        if progs is None:
            continue
        try:
            e2 = G.interpret([ln for p in progs for ln in p])
        except G.Rejected:
            continue
        p2 = [p for p in e2 if p["path"] == pa["path"]][0]
        if G._same(p2["value"], oa["value"], 1e-12 if p2.get("converted") else None):
            return "value-of-definition-kept" if n == 0 else "value-of-earlier-assignment-kept"
    return "value-differs"


# ------------------------------------------------------------------------------------------------ enumeration
def _cases(tier, seed, only=None):
    """every case descriptor of the tier (generator); only = family index to restrict to.  Yields (family, desc)."""
    fams = families()
    win = seed % NWIN
    for fi, fam in enumerate(fams):
        if only is not None and fi != only:
            continue
        F = list(fam)
        full = steps(fam)
        core = steps(fam, core=True)
        # ---- positive, root placement
        for n in (1, 2):
            for seq in itertools.product(full, repeat=n):
                if final_ok(seq):
                    yield fi, dict(sub="sequence", fam=F, seq=[list(s) for s in seq])
        full3 = tier == "thorough" or (fi % NWIN == win)
        done = set()
        if full3:
            for seq in itertools.product(full, repeat=3):
                if final_ok(seq):
                    yield fi, dict(sub="sequence", fam=F, seq=[list(s) for s in seq])
        else:
            for seq in itertools.product(core, repeat=3):
                if final_ok(seq):
                    yield fi, dict(sub="sequence", fam=F, seq=[list(s) for s in seq])
        # ---- positive, other placements (core alphabet, length <= 2; thorough: + full alphabet length 1)
        for pl in PLACEMENTS[1:]:
            seqs = [(s,) for s in (full if tier == "thorough" else core)]
            seqs += list(itertools.product(core, repeat=2))
            for seq in seqs:
                if final_ok(seq):
                    yield fi, dict(sub="placement", fam=F, seq=[list(s) for s in seq], placement=pl)
        # ---- negative programs
        bads = bad_steps(fam)
        ctx = [((), 0), ((core[0],), 1), ((core[0],), 0), ((core[2 % len(core)],), 1)]
        for bi in range(len(bads)):
            for k, (seq, at) in enumerate(ctx):
                pls = ["root", PLACEMENTS[1 + (fi + bi + k) % 4]] if tier == "quick" else list(PLACEMENTS[:5])
                for pl in pls:
                    yield fi, dict(sub="negative", fam=F, seq=[list(s) for s in seq], placement=pl, bad=bi, bad_at=at)
        if fam[3] == "def":
            for s in (full if tier == "thorough" else list(dict.fromkeys(core + [(True, "none", "omit")]))):
                if not final_ok((s,)):
                    continue
                pls = ["root", PLACEMENTS[1 + fi % 4]] if tier == "quick" else list(PLACEMENTS[:5])
                for pl in pls:
                    yield fi, dict(sub="negative", fam=F, seq=[list(s)], placement=pl, constant=True)
                yield fi, dict(sub="negative", fam=F, seq=[list(core[1 % len(core)]), list(s)], placement="root",
                               constant=True)
        else:
            for pl in ("root", "group", "regroup"):
                yield fi, dict(sub="negative", fam=F, seq=[], placement=pl)          # declared, never assigned
        for pl in ("root", "dotted", "chain"):
            for seq, at in ctx[:3]:
                if pl == "chain" and fam[3] == "decl" and (len(seq) < 1 or at == 0):
                    continue                      # the first parse() of the chain needs the first modification
                yield fi, dict(sub="negative", fam=F, seq=[list(s) for s in seq], placement=pl, undefined=True,
                               bad_at=at)
                if pl != "root":
                    yield fi, dict(sub="negative", fam=F, seq=[list(s) for s in seq], placement=pl,
                                   undefined="suffix", bad_at=at)


def _extra_cases(tier, seed):
    """constraints: the node carries an option list / a condition, so that the validation pass of parse() runs;
    functions: another node v is computed by a DIP function that reads / converts node a"""
    for fam in constrained_families():
        F = list(fam)
        full, core = value_steps(fam), value_steps(fam, core=True)
        seqs = [(x,) for x in full]
        seqs += list(itertools.product(full if tier == "thorough" else core, full if tier == "thorough" else core))
        for ckind in CKINDS:
            for seq in seqs:
                for pl in ("root", "chain"):
                    yield dict(sub="constraints", fam=F, seq=[list(x) for x in seq], placement=pl, ckind=ckind)
        fseqs = ([()] if fam[3] == "def" else []) + [(x,) for x in full] + list(itertools.product(core, core))
        for fn in FN_KINDS:
            for pos in ("def", "mod"):
                for seq in fseqs:
                    yield dict(sub="functions", fam=F, seq=[list(x) for x in seq], fn=fn, pos=pos)


def _more_cases(tier, seed):
    """injection: the first occurrence of a is a definition by (sliced) injection of node src;
    nonlinear: float nodes in temperature / level units (affine and logarithmic conversions), scalars and arrays"""
    for sub, fams in (("injection", injection_families()), ("nonlinear", nonlinear_families())):
        for fam in fams:
            F = list(fam)
            full, core = steps(fam), steps(fam, core=True)
            seqs = [(x,) for x in full]
            if tier == "thorough":
                seqs += list(itertools.product(full, full)) + list(itertools.product(core, repeat=3))
            else:
                seqs += list(itertools.product(core, core))
            for seq in seqs:
                if final_ok(seq):
                    yield dict(sub=sub, fam=F, seq=[list(x) for x in seq])


NEXTRA = 8


def _family_size(tier, seed, fi):
    fam = families()[fi]
    a, c = len(steps(fam)), len(steps(fam, core=True))
    full3 = tier == "thorough" or (fi % NWIN == seed % NWIN)
    return a + a * a + (a ** 3 if full3 else c ** 3) + 6 * (c + c * c) + 400


def plan(tier, seed):
    shards = []
    for fi in range(len(families())):
        parts = max(1, round(_family_size(tier, seed, fi) / 2500))
        shards += [(tier, seed, fi, k, parts) for k in range(parts)]
    shards.sort(key=lambda d: -_family_size(d[0], d[1], d[2]) / d[4])
    return [("x", tier, seed, k, NEXTRA) for k in range(NEXTRA)] + shards


def init_worker():
    isolation.tables_snapshot()
    G.prime_inspect_cache()


def run_shard(desc):
    sh = Shard(PROPERTY)
    seen = set()
    idx = 0
    if desc[0] == "x":
        _, tier, seed, k, n = desc
        for d in itertools.chain(_extra_cases(tier, seed), _more_cases(tier, seed)):
            idx += 1
            if idx % n == k:
                run_case(d, sh, seen)
        isolation.tables_restore()
        return sh
    tier, seed, fi, k, n = desc
    for _, d in _cases(tier, seed, only=fi):
        idx += 1
        if idx % n != k:
            continue
        run_case(d, sh, seen)
    isolation.tables_restore()
    return sh


def replay(rec):
    isolation.tables_restore()
    r = run_case(rec["case"]["desc"])
    isolation.tables_restore()
    return r


def finish(total, tier, seed):
    h = total.hist
    need = ["expect=accept", "sub=sequence", "sub=placement", "sub=negative", "sub=constraints", "sub=functions", "sub=injection", "sub=nonlinear", "len=3", "feature=last:zero",
            "feature=last:none", "feature=last:false", "feature=last:empty", "feature=conversion", "feature=array",
            "feature=earlier:none-with-unit",
            "feature=typed-mod"] + ["placement=" + p for p in PLACEMENTS]
    missing = [k for k in need if not h.get(k)]
    rejects = [k for k in h if k.startswith("expect=reject:")]
    if missing or len(rejects) < 6:
        raise HarnessError("vacuous run: missing %s, reject classes %s" % (missing, rejects))
    return dict(families=len(families()), window=seed % NWIN, windows=NWIN,
                windows_explored=(NWIN if tier == "thorough" else 1),
                max_modifications=3, reject_classes=sorted(rejects), caps_hit=[])

MANIFEST = dict(
    text="Bounded exhaustive enumeration of definition/declaration + modification programs on the real parser against "
         "a reference interpretation of the generating AST: 82 families (bool/int/float/str and sized variants x unit "
         "none/m/cm/mm/J/custom x scalar/[2] array x definition with normal/falsy/none value or declaration), every "
         "sequence of 1-2 modifications (typed/untyped x 0/negative/positive/false/''/none x unit omitted/same/two "
         "other units; `none <unit>` only as an intermediate step), length 3 over a core alphabet for all families and over the full alphabet for the seed's window "
         "(1 of 26 windows, chosen by VERIF_SEED; thorough: all windows), seven placements (root, group, dotted path, re-opened group, DIP(env) chain, local import of the group, import from a source file) and negative "
         "programs (other data type, other dimension, constant, never assigned, undefined node) that must be rejected; "
         "nodes carrying option lists (same / other unit) and conditions so that validation runs; nodes read or "
         "converted by DIP functions of another node; first occurrences defined by (sliced) injection; float scalars "
         "and arrays in temperature (K, Cel, degF) and level (B, dB, PR) units.",
    note="Unit factors hand-written (SI definitions), converted values compared to 1e-12 relative. Not covered: none "
         "with a unit, units on unit-less nodes, non-integral integer conversions, non-linear units, shape changes.",
    technique="bounded grammar enumeration, reference interpreter over the generator AST with exact Fraction unit algebra",
)
