"""Snapshot / compare / restore of the process-wide unit tables.

Library failure paths can leak registrations into UNIT_STANDARD / UNIT_TYPES.  Long-lived workers call
`tables_restore()` after each case so that one case cannot influence the next; `tables_diff()` reports what leaked
(used as the C09 invariant).
"""
import copy

_SNAP = None


def _tables():
    from scinumtools.units import settings as st
    return st.UNIT_STANDARD, st.UNIT_PREFIXES, st.UNIT_TYPES


def _freeze(v):
    try:
        import numpy as np
        if isinstance(v, np.ndarray):
            return ("nd", v.tolist())
    except Exception:
        pass
    if isinstance(v, (list, tuple)):
        return tuple(_freeze(x) for x in v)
    if isinstance(v, (int, float, str, bool, type(None))):
        return v
    if isinstance(v, type):
        return "class:" + v.__name__
    return repr(v)


def table_state(tbl):
    """ordered canonical content of a keyed ParameterTable"""
    rows = []
    for k in list(tbl._keys):
        ps = tbl._data.get(k)
        rows.append((k, tuple((f, _freeze(getattr(ps, f, None))) for f in ps._keys) if ps is not None else None))
    extra = tuple(sorted(set(tbl._data) - set(tbl._keys)))
    return (tuple(rows), extra)


def tables_state():
    us, up, ut = _tables()
    return (table_state(us), table_state(up), tuple(t.__name__ for t in ut))


def tables_snapshot():
    """Take the pristine snapshot (call once per process, before any case runs)."""
    global _SNAP
    us, up, ut = _tables()
    _SNAP = dict(
        state=tables_state(),
        us_keys=list(us._keys), us_data=dict(us._data), us_rows={k: copy.deepcopy(v.data()) for k, v in us._data.items()},
        up_keys=list(up._keys), up_data=dict(up._data), up_rows={k: copy.deepcopy(v.data()) for k, v in up._data.items()},
        ut=list(ut),
    )
    return _SNAP["state"]


def tables_diff(ref=None):
    """Human-readable difference between the current tables and `ref` (default: pristine). Empty list = equal."""
    if _SNAP is None:
        tables_snapshot()
    ref = ref if ref is not None else _SNAP["state"]
    cur = tables_state()
    if cur == ref:
        return []
    out = []
    for name, a, b in (("UNIT_STANDARD", ref[0], cur[0]), ("UNIT_PREFIXES", ref[1], cur[1])):
        ka, kb = [r[0] for r in a[0]], [r[0] for r in b[0]]
        if ka != kb:
            added = [k for k in kb if k not in ka]
            removed = [k for k in ka if k not in kb]
            out.append(f"{name}: added={added} removed={removed}" + ("" if added or removed else " order/duplicates changed"))
        da, db = dict(a[0]), dict(b[0])
        for k in ka:
            if k in db and da[k] != db[k]:
                out.append(f"{name}[{k}] row changed")
        if a[1] != b[1]:
            out.append(f"{name}: orphan data keys {b[1]}")
    if ref[2] != cur[2]:
        out.append(f"UNIT_TYPES: {list(ref[2])} -> {list(cur[2])}")
    return out or ["tables differ"]


def tables_restore():
    """Restore the pristine tables in place. Returns the diff that had to be undone (empty list if nothing)."""
    if _SNAP is None:
        tables_snapshot()
        return []
    d = tables_diff()
    if not d:
        return d
    us, up, ut = _tables()
    for tbl, pre in ((us, "us"), (up, "up")):
        tbl._keys[:] = _SNAP[pre + "_keys"]
        tbl._data.clear()
        tbl._data.update(_SNAP[pre + "_data"])
        for k, ps in tbl._data.items():
            for f, v in _SNAP[pre + "_rows"][k].items():
                if _freeze(getattr(ps, f, None)) != _freeze(v):
                    setattr(ps, f, copy.deepcopy(v))
    ut[:] = _SNAP["ut"]
    return d


# ------------------------------------------------------------------------------------------------ class-level state
# State that outlives an *instance*: mutable containers stored on a class and the default-argument objects of its
# functions.  A long-lived worker restores them (in place) between cases so that one history cannot leak into the
# next; a check that wants to *see* such a leak builds a second instance before restoring.
_CLS = None


def _cls_slots(classes):
    import types
    for cls in classes:
        for name, val in list(vars(cls).items()):
            if name.startswith("__") and name != "__init__":
                continue
            if isinstance(val, (list, dict, set)):
                yield (cls.__name__, name, "attr"), val
            fn = val.__func__ if isinstance(val, (staticmethod, classmethod)) else val
            if isinstance(fn, types.FunctionType):
                for i, d in enumerate(fn.__defaults__ or ()):
                    if isinstance(d, (list, dict, set)):
                        yield (cls.__name__, name, "default%d" % i), d
                for k, d in (fn.__kwdefaults__ or {}).items():
                    if isinstance(d, (list, dict, set)):
                        yield (cls.__name__, name, "kwdefault:" + k), d


def class_state_snapshot(classes):
    """remember the pristine content of every class-level container / mutable default of `classes`"""
    global _CLS
    _CLS = dict(classes=list(classes), attrs={c.__name__: set(vars(c)) for c in classes},
                slots={key: (obj, copy.deepcopy(obj)) for key, obj in _cls_slots(classes)})


def class_state_restore():
    """restore in place; returns the list of slots that had changed (empty: nothing leaked)"""
    if _CLS is None:
        return []
    changed = []
    for key, (obj, pristine) in _CLS["slots"].items():
        if obj != pristine:
            changed.append(":".join(key))
            if isinstance(obj, list):
                obj[:] = copy.deepcopy(pristine)
            else:
                obj.clear()
                obj.update(copy.deepcopy(pristine))
    for cls in _CLS["classes"]:
        for name in set(vars(cls)) - _CLS["attrs"][cls.__name__]:
            if not name.startswith("__"):
                changed.append("%s:%s:new-attribute" % (cls.__name__, name))
                try:
                    delattr(cls, name)
                except Exception:
                    pass
    return changed
