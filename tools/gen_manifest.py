#!/venv/bin/python
"""Regenerate /verif/MANIFEST.json from the check modules present under mc/checks.

Each check module carries PROPERTY, LEVEL and a MANIFEST dict(text=..., note=..., technique=..., design_ref=...).
Properties without a module are listed under not_applicable with the reason given in PENDING below.
"""
import os, re, sys, json, glob, subprocess

VERIF = os.path.dirname(os.path.dirname(os.path.abspath(__file__)))
sys.path.insert(0, VERIF)

PENDING = {}   # property id -> reason (filled when a property is deliberately not claimed)


def hooks_commits():
    try:
        out = subprocess.run(["git", "-C", "/repo", "log", "--format=%h %s"], capture_output=True, text=True).stdout
    except Exception:
        return []
    return [l.split()[0] for l in out.splitlines() if l.split(" ", 1)[1].startswith("verif-hook:")]


def main():
    props = [json.loads(l) for l in open(os.path.join(VERIF, "properties.jsonl"))]
    checks, na = [], []
    accepted = set(open(os.path.join(VERIF, "tools", "accepted.txt")).read().split())
    for p in props:
        pid = p["id"]
        hits = glob.glob(os.path.join(VERIF, "mc", "checks", pid.lower() + "_*.py"))
        if not hits or pid not in accepted:
            na.append(dict(property_id=pid, reason=PENDING.get(pid, "check not built yet (work in progress; see DESIGN.md section 3 for the planned bounded-exhaustive check)")))
            continue
        src = open(hits[0]).read()
        ns = {}
        m = re.search(r"^MANIFEST = dict\((.*?)^\)", src, re.S | re.M)
        if not m:
            raise SystemExit("no MANIFEST dict in " + hits[0])
        exec("M = dict(" + m.group(1) + ")", ns)
        M = ns["M"]
        level = re.search(r'^LEVEL = "(\w+)"', src, re.M).group(1)
        checks.append(dict(
            property_id=pid,
            quick_cmd=f"./run {pid} --tier quick",
            thorough_cmd=f"./run {pid} --tier thorough",
            evidence_file=f"/verif/evidence/{pid}.json",
            replay_cmd_template=f"./run {pid} --replay {{path}}",
            engine="mc",
            level_claimed=dict(category=level, text=M["text"], design_ref=M.get("design_ref", "DESIGN.md section 3, " + pid)),
            level_note=M["note"],
            technique=M["technique"],
        ))
    man = dict(
        version=1,
        setup_cmd="/venv/bin/python -m compileall -q /verif/mc >/dev/null && /venv/bin/python /verif/tools/setup_check.py",
        hooks=dict(guard="SCINUMTOOLS_VERIF",
                   enable="checks export SCINUMTOOLS_VERIF=1 (./run does it); no hook commits exist: all fault points are reachable through inputs",
                   baseline_off_cmd="cd /repo && env -u SCINUMTOOLS_VERIF /venv/bin/python -m pytest -ra -q -p no:cacheprovider --timeout=900 --continue-on-collection-errors",
                   source_commits=hooks_commits(), add_only=True),
        engines=[dict(name="mc", path="/verif/mc",
                      serves_properties=[c["property_id"] for c in checks],
                      kind_free_text="hand-written bounded-exhaustive explorers in Python: E1 explicit-state BFS over operation/fault histories executed on the real objects, E2 complete unfolding of bounded grammars compared with reference models; 16 forked workers, deterministic hash sharding")],
        checks=checks,
        notes="All checks run the current working tree of /repo (VERIF_REPO overrides) through /venv/bin/python. Exit 2 = harness error.",
        not_applicable=na,
    )
    with open(os.path.join(VERIF, "MANIFEST.json"), "w") as f:
        json.dump(man, f, indent=1)
        f.write("\n")
    code = ("import json,sys,jsonschema;"
            "jsonschema.validate(json.load(open(sys.argv[1])),json.load(open(sys.argv[2])))")
    r = subprocess.run(["python3-vt", "-c", code, os.path.join(VERIF, "MANIFEST.json"), "/root/.vp/MANIFEST.schema.json"],
                       capture_output=True, text=True)
    print("MANIFEST: %d checks, %d not_applicable, schema %s" % (len(checks), len(na), "OK" if r.returncode == 0 else r.stderr[-500:]))


if __name__ == "__main__":
    main()
